(* Proofs/ExtractProofs.v -- lemmas behind Properties/C20.v *)
From Coq Require Import Lia.
From MakoV Require Import Lib.Str Gen.Unicode Model.Extract.
Open Scope N_scope.

Scheme node_mut := Induction for node Sort Prop
  with nodes_mut := Induction for nodes Sort Prop.
Combined Scheme node_nodes_ind from node_mut, nodes_mut.

Lemma nodes_ind_simple (P : nodes -> Prop) : P NNil -> (forall n r, P r -> P (NCons n r)) -> forall l, P l.
Proof. intros H0 HS. fix IH 1. intros [|n r]; [exact H0|apply HS; apply IH]. Qed.

Fixpoint lines_ok (l : nodes) : Prop :=
  match l with NNil => True | NCons n r => lines_ok_node n /\ lines_ok r end
with lines_ok_node (n : node) : Prop :=
  match n with
  | NCodeNode _ line _ => 1 <= line
  | NTagCode line _ kids => 1 <= line /\ lines_ok kids
  | NTagOther kids => True
  | _ => True
  end.

Definition strip_comments (o : out) : N * N := (fst (fst o), snd (fst o)).

Lemma process_lines line c s : 1 <= line ->
  map strip_comments (fst (process line c s)) = reported (line, c).
Proof.
  intros H. unfold process, reported. cbn [fst snd]. rewrite map_map. apply map_ext. intros [k m].
  unfold strip_comments. cbn [fst snd]. f_equal. lia.
Qed.

(* every message is reported at the template line of the call: node line + index of the code
   line the call is on; and the messages are exactly the calls of the visited nodes, in order *)
Lemma extract_lines_mut tags :
  (forall n, lines_ok_node n -> forall s, map strip_comments (fst (ex_node tags n s)) = flat_map reported (visited_node n)) /\
  (forall l, lines_ok l -> forall s, map strip_comments (ex_nodes tags l s) = flat_map reported (visited l)).
Proof.
  apply node_nodes_ind.
  - intros content _ s. cbn [ex_node visited_node flat_map]. destruct (intc s && is_blank_text content); reflexivity.
  - intros line text _ s. cbn [ex_node visited_node flat_map]. destruct (intc s); [reflexivity|].
    destruct (filter _ tags); reflexivity.
  - intros k line c H s. cbn [ex_node visited_node flat_map lines_ok_node] in *. rewrite app_nil_r.
    destruct k; apply process_lines; exact H.
  - intros _ s. reflexivity.
  - intros line c kids IH [H1 H2] s. cbn [ex_node visited_node flat_map].
    destruct (process line c s) as [o s1] eqn:E. cbn [fst]. rewrite map_app.
    pose proof (process_lines line c s H1) as P. rewrite E in P. cbn [fst] in P. rewrite P, (IH H2 est0). reflexivity.
  - intros kids _ _ s. reflexivity.
  - intros _ s. reflexivity.
  - intros n IHn r IHr [H1 H2] s. cbn [ex_nodes visited]. destruct (ex_node tags n s) as [o s'] eqn:E.
    rewrite map_app, flat_map_app. specialize (IHn H1 s). rewrite E in IHn. cbn [fst] in IHn. rewrite IHn, (IHr H2 s'). reflexivity.
Qed.

Theorem reported_line_is_template_line tags l :
  lines_ok l -> map strip_comments (extract tags l) = flat_map reported (visited l).
Proof. intros H. apply (proj2 (extract_lines_mut tags)). exact H. Qed.

(* the traversal hands over every Python-bearing construct exactly once, in document order,
   provided none sits below a tag it does not descend into *)
Lemma visited_all_mut :
  (forall n, no_hidden_code_node n = true -> visited_node n = all_codes_node n) /\
  (forall l, no_hidden_code l = true -> visited l = all_codes l).
Proof.
  apply node_nodes_ind; cbn [visited_node all_codes_node visited all_codes no_hidden_code_node no_hidden_code]; try reflexivity.
  - intros line c kids IH H. rewrite (IH H). reflexivity.
  - intros kids _ H. destruct (all_codes kids); [reflexivity|discriminate].
  - intros n IHn r IHr H. apply andb_true_iff in H as [H1 H2]. rewrite (IHn H1), (IHr H2). reflexivity.
Qed.

Theorem every_construct_visited_once_partial l : no_hidden_code l = true -> visited l = all_codes l.
Proof. apply (proj2 visited_all_mut). Qed.

(* ... but not in general: a def written inside <%namespace> is never handed to the extractor
   (known finding C20-F1) *)
Theorem every_construct_visited_once_refuted :
  exists l, visited l <> all_codes l.
Proof.
  exists (NCons (NTagOther (NCons (NTagCode 2 [(0, 7)] NNil) NNil)) NNil). cbn. discriminate.
Qed.

(* nothing comes from plain text, comments and skipped tags *)
Fixpoint no_code (l : nodes) : bool :=
  match l with NNil => true | NCons n r => no_code_node n && no_code r end
with no_code_node (n : node) : bool :=
  match n with NText _ | NComment _ _ | NControlEnd | NTagOther _ => true | _ => false end.

Theorem nothing_from_text_doc_comment tags : forall l s, no_code l = true -> ex_nodes tags l s = [].
Proof.
  intros l. induction l as [|n r IH] using nodes_ind_simple; intros s H.
  - reflexivity.
  - cbn [no_code] in H. apply andb_true_iff in H as [Hn Hr]. cbn [ex_nodes].
    destruct n; try discriminate; cbn [ex_node].
    + destruct (intc s && is_blank_text content); apply IH; exact Hr.
    + destruct (intc s); [apply IH; exact Hr|]. destruct (filter _ tags); apply IH; exact Hr.
    + apply IH; exact Hr.
    + apply IH; exact Hr.
Qed.

(* ---- translator comments attach iff immediately before ---------------------------------------- *)
Lemma split_lines_single v : forall cur,
  forallb (fun c => negb (c =? LF) && negb (c =? CR)) v = true -> cur ++ v <> [] ->
  split_lines v cur = [cur ++ v].
Proof.
  induction v as [|c r IH]; intros cur H Hne; cbn [split_lines].
  - rewrite app_nil_r in *. destruct cur; [congruence|reflexivity].
  - cbn [forallb] in H. apply andb_true_iff in H as [Hc Hr]. apply andb_true_iff in Hc as [H1 H2].
    apply negb_true_iff in H1, H2. rewrite H1, H2. cbn [andb].
    rewrite (IH (cur ++ [c]) Hr); rewrite <- app_assoc; [reflexivity|exact Hne].
Qed.

Definition single_line (v : str) : Prop := v <> [] /\ forallb (fun c => negb (c =? LF) && negb (c =? CR)) v = true.

(* a tagged single-line comment on the line directly above a construct is attached to all its
   messages; one line further up, it is attached to none *)
Theorem comment_attaches_when_immediately_before tags k lc text line c r t s :
  intc s = false ->
  single_line (strip text) -> filter (fun t0 => starts_with t0 (strip text)) tags = t :: nil -> 1 <= lc ->
  ex_nodes tags (NCons (NComment lc text) (NCons (NCodeNode k line c) r)) s =
    (if lc <? line - 1 then map (fun km => ((line - 1) + ((fst km + 2) - 1), snd km, [])) c
     else map (fun km => ((line - 1) + ((fst km + 2) - 1), snd km, [strip text])) c)
    ++ ex_nodes tags r {| tc := match c with [] => if lc <? line - 1 then [] else [(lc, strip text)] | _ => [] end; intc := false |}.
Proof.
  intros Hs [Hne Hsl] Hf Hlc. cbn [ex_nodes ex_node]. rewrite Hs, Hf. cbn [intc tc app].
  unfold split_comment. rewrite (split_lines_single (strip text) [] Hsl) by (cbn [app]; exact Hne).
  cbn [app number_from]. rewrite ?app_nil_r.
  assert (Hproc : forall s0, tc s0 = [(lc, strip text)] ->
    process line c s0 = ((if lc <? line - 1 then map (fun km => ((line - 1) + ((fst km + 2) - 1), snd km, [])) c
                          else map (fun km => ((line - 1) + ((fst km + 2) - 1), snd km, [strip text])) c),
                         {| tc := match c with [] => if lc <? line - 1 then [] else [(lc, strip text)] | _ => [] end; intc := false |})).
  { intros s0 Hs0. unfold process. rewrite Hs0. cbn [last_line]. destruct (lc <? line - 1); cbn [map snd]; destruct c; reflexivity. }
  destruct k; cbn [tc intc]; rewrite Hproc by reflexivity; reflexivity.
Qed.

(* a comment that does not start with a configured tag is attached to nothing *)
Theorem untagged_comment_is_ignored tags lc text rest s :
  intc s = false -> filter (fun t0 => starts_with t0 (strip text)) tags = [] ->
  ex_nodes tags (NCons (NComment lc text) rest) s = ex_nodes tags rest s.
Proof. intros Hi Hf. cbn [ex_nodes ex_node]. rewrite Hi, Hf. reflexivity. Qed.

(* text that is not blank closes a block of translator comments: an ordinary comment after it is
   not a continuation, whatever came before *)
Theorem text_closes_comment_block tags content lc text rest s :
  is_blank_text content = false -> filter (fun t0 => starts_with t0 (strip text)) tags = [] ->
  ex_nodes tags (NCons (NText content) (NCons (NComment lc text) rest)) s = ex_nodes tags rest {| tc := tc s; intc := false |}.
Proof.
  intros Hb Hf. cbn [ex_nodes ex_node]. rewrite Hb, andb_false_r. cbn [intc]. rewrite Hf. reflexivity.
Qed.

(* a construct uses the comment block up: whether or not it had a message, the block is closed
   afterwards *)
Theorem construct_closes_comment_block line c s : intc (snd (process line c s)) = false.
Proof. reflexivity. Qed.
