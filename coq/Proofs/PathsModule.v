(* Proofs/PathsModule.v -- generated module files lie beneath module_directory *)
From Coq Require Import Lia Arith PeanoNat.
From MakoV Require Import Lib.Str Model.Paths Proofs.PathsProofs.
Open Scope N_scope.

Definition py : str := s2l ".py".

Lemma join_sep_app_last sep : forall l x y, join_sep sep (l ++ [x]) ++ y = join_sep sep (l ++ [x ++ y]).
Proof.
  induction l as [|a l IH]; intros x y; [reflexivity|].
  destruct l as [|b l']; cbn [app join_sep] in *.
  - rewrite <- app_assoc. reflexivity.
  - rewrite <- app_assoc. cbn [app]. f_equal. f_equal. exact (IH x y).
Qed.

(* str.split is the inverse of str.join when no element holds the separator *)
Lemma split_cons_nosep sep c s : (c =? sep) = false ->
  split_on sep (c :: s) = match split_on sep s with h :: t => (c :: h) :: t | [] => [[c]] end.
Proof. intros H. cbn [split_on]. rewrite H. reflexivity. Qed.

Lemma split_single sep x : ~ In sep x -> split_on sep x = [x].
Proof.
  induction x as [|c r IH]; intros H; [reflexivity|].
  assert (Hc : (c =? sep) = false) by (apply N.eqb_neq; intros ->; apply H; left; reflexivity).
  rewrite (split_cons_nosep sep c r Hc), IH; [reflexivity|]. intros Hin. apply H. right. exact Hin.
Qed.

Lemma split_app_nosep sep x : forall s, ~ In sep x ->
  split_on sep (x ++ sep :: s) = x :: split_on sep s.
Proof.
  induction x as [|c r IH]; intros s H.
  - cbn [app split_on]. rewrite N.eqb_refl. reflexivity.
  - assert (Hc : (c =? sep) = false) by (apply N.eqb_neq; intros ->; apply H; left; reflexivity).
    cbn [app]. rewrite (split_cons_nosep sep c _ Hc), IH; [reflexivity|]. intros Hin. apply H. right. exact Hin.
Qed.

Lemma split_join sep : forall l, l <> [] -> Forall (fun c => ~ In sep c) l -> split_on sep (join_sep sep l) = l.
Proof.
  induction l as [|x l IH]; intros Hne Hl; [congruence|]. inversion Hl as [|? ? Hx Hr]; subst.
  destruct l as [|y l']; cbn [join_sep].
  - apply split_single. exact Hx.
  - rewrite split_app_nosep by exact Hx. f_equal. apply IH; [discriminate|exact Hr].
Qed.

(* plain components are pushed *)
Lemma step_plain a S c : plainP c -> norm_step a S c = c :: S.
Proof.
  intros (H1 & H2 & H3 & _). unfold norm_step.
  assert (E1 : is_nil c = false) by (destruct c; [congruence|reflexivity]).
  assert (E2 : str_eqb c dot = false) by (apply str_eqb_neq; exact H2).
  assert (E3 : str_eqb c dotdot = false) by (apply str_eqb_neq; exact H3).
  rewrite E1, E2, E3. reflexivity.
Qed.

Lemma run_plain a : forall comps S, Forall plainP comps -> run_norm a S comps = rev comps ++ S.
Proof.
  unfold run_norm. induction comps as [|c comps IH]; intros S H; [reflexivity|]. inversion H; subst.
  cbn [fold_left rev]. rewrite step_plain by assumption. rewrite IH by assumption. rewrite <- app_assoc. reflexivity.
Qed.

Lemma plainP_py c : c <> [] -> ~ In SLASH c -> plainP (c ++ py).
Proof.
  intros Hne Hs. destruct c as [|x c']; [congruence|]. repeat split.
  - discriminate.
  - unfold dot. destruct c'; discriminate.
  - unfold dotdot, py. destruct c' as [|y [|z c'']]; cbn; discriminate.
  - intros Hin. apply in_app_or in Hin as [Hin|Hin]; [exact (Hs Hin)|]. cbn in Hin. intuition discriminate.
Qed.

Lemma iss_unfold base full fuel :
  is_suffix_stack base full fuel =
  if Nat.eqb (length full) (length base) then
    (if forallb (fun ab => str_eqb (fst ab) (snd ab)) (combine full base) then Some [] else None)
  else match fuel, full with
       | S f, x :: r => option_map (cons x) (is_suffix_stack base r f)
       | _, _ => None
       end.
Proof. destruct full; destruct fuel; reflexivity. Qed.

Lemma is_suffix_stack_app base : forall segs fuel, (length segs <= fuel)%nat ->
  is_suffix_stack base (segs ++ base) fuel = Some segs.
Proof.
  assert (Hrefl : forall l : list str, forallb (fun ab => str_eqb (fst ab) (snd ab)) (combine l l) = true).
  { induction l as [|x l IH]; [reflexivity|]. cbn [combine forallb fst snd]. rewrite str_eqb_refl, IH. reflexivity. }
  induction segs as [|x r IH]; intros fuel Hf.
  - cbn [app]. rewrite iss_unfold, Nat.eqb_refl, Hrefl. reflexivity.
  - cbn [app length] in *. destruct fuel as [|f]; [lia|]. rewrite iss_unfold.
    assert (E : Nat.eqb (length (x :: r ++ base)) (length base) = false).
    { apply Nat.eqb_neq. cbn [length]. rewrite app_length. lia. }
    rewrite E, IH by lia. reflexivity.
Qed.

Lemma normpath_nonempty s : normpath s <> [].
Proof.
  unfold normpath. destruct (is_nil s); [discriminate|].
  destruct (is_nil (repeat SLASH (initial_slashes s) ++ join_sep SLASH (rev (norm_stack s)))) eqn:E; [discriminate|].
  intros H. rewrite H in E. discriminate.
Qed.

(* the relative part of a checked URI, normalised: its plain components (bottom first), or "." when there are none *)
Lemma u_norm_shape uri :
  template_check uri = true ->
  exists segs, Forall plainP segs /\
    u_norm uri = match segs with [] => dot | _ => join_sep SLASH (rev segs) end.
Proof.
  intros Hck.
  destruct (lookup_contained [] uri Hck) as (segs & Hstk & _ & Hplain).
  exists segs. split; [exact Hplain|].
  rewrite clean_agree in Hstk. set (u := clean_template uri) in *.
  assert (Hrel : is_abs u = false) by (unfold u; rewrite <- clean_agree; apply lstrip_not_abs).
  assert (Hj : join [] u = u) by (unfold join; destruct (is_abs u); reflexivity). rewrite Hj in Hstk.
  assert (Hn : norm_stack [] = []) by reflexivity. rewrite Hn, app_nil_r in Hstk.
  unfold u_norm. fold u. unfold normpath. destruct (is_nil u) eqn:Hnil.
  - destruct u; [|discriminate]. cbv in Hstk. subst segs. reflexivity.
  - assert (Hinit : initial_slashes u = O).
    { unfold initial_slashes. destruct u as [|c r]; [reflexivity|]. cbn [is_abs] in Hrel. cbn [count_leading]. rewrite Hrel. reflexivity. }
    rewrite Hinit, Hstk. cbn [repeat app]. destruct segs as [|top rest]; [reflexivity|].
    destruct (is_nil (join_sep SLASH (rev (top :: rest)))) eqn:E; [|reflexivity].
    (* the first component is not empty *)
    exfalso. cbn [rev] in E. destruct (rev rest) as [|b l] eqn:Er.
    + cbn in E. inversion Hplain as [|? ? (Hne & _) _]; subst. destruct top; [congruence|discriminate].
    + assert (Hb : In b (top :: rest)) by (right; apply in_rev; rewrite Er; left; reflexivity).
      rewrite Forall_forall in Hplain. destruct (Hplain b Hb) as (Hne & _).
      destruct (join_sep_head SLASH b (l ++ [top])) as [tl Ht]. cbn [app] in E. rewrite Ht in E.
      destruct b; [congruence|discriminate].
Qed.

Theorem module_path_contained md uri :
  template_check uri = true -> within (normpath md) (module_path md uri) = true.
Proof.
  intros Hck. destruct (u_norm_shape uri Hck) as (segs & Hplain & Hu).
  set (nd := normpath md).
  (* the components of the relative part with the extension *)
  assert (Hrelparts : exists comps, comps <> [] /\ Forall plainP comps /\ u_norm uri ++ py = join_sep SLASH comps).
  { rewrite Hu. destruct segs as [|top rest].
    - exists [dot ++ py]. split; [discriminate|]. split; [|reflexivity].
      constructor; [|constructor]. apply plainP_py; [discriminate|]. cbn. intuition discriminate.
    - cbn [rev]. exists (rev rest ++ [top ++ py]). split; [destruct (rev rest); discriminate|]. split.
      + apply Forall_app. split.
        * apply Forall_rev. inversion Hplain; assumption.
        * constructor; [|constructor]. inversion Hplain as [|? ? (H1 & _ & _ & H4) _]; subst. apply plainP_py; assumption.
      + apply join_sep_app_last. }
  destruct Hrelparts as (comps & Hne & Hcp & Hrel).
  assert (Hnoslash : Forall (fun c => ~ In SLASH c) comps).
  { rewrite Forall_forall in *. intros c Hc. destruct (Hcp c Hc) as (_ & _ & _ & H). exact H. }
  assert (Habs : is_abs (u_norm uri ++ py) = false).
  { rewrite Hrel. destruct comps as [|c0 cs]; [congruence|]. inversion Hcp as [|? ? (H1 & _ & _ & H4) _]; subst.
    destruct (join_sep_head SLASH c0 cs) as [tl ->]. destruct c0 as [|x c0']; [congruence|]. cbn [app is_abs].
    apply N.eqb_neq. intros ->. apply H4. left. reflexivity. }
  assert (Hstack : norm_stack (module_path md uri) = rev comps ++ norm_stack nd).
  { unfold module_path. fold nd. fold py. rewrite (norm_stack_join nd _ Habs), Hrel, (split_join SLASH comps Hne Hnoslash).
    apply run_plain. exact Hcp. }
  assert (Habs2 : is_abs (module_path md uri) = is_abs nd).
  { unfold module_path. fold nd. fold py. unfold join. rewrite Habs.
    assert (Hnd : nd <> []) by apply normpath_nonempty.
    destruct nd as [|c0 d0]; [congruence|]. cbn [is_nil orb]. destruct (ends_with_slash (c0 :: d0)); reflexivity. }
  unfold within. rewrite Habs2, Bool.eqb_reflx, Hstack. cbn [andb].
  rewrite is_suffix_stack_app by (rewrite app_length; lia).
  apply forallb_forall. intros c Hc. apply plain_spec. apply in_rev in Hc. rewrite Forall_forall in Hcp. exact (Hcp c Hc).
Qed.
