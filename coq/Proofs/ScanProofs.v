(* Proofs/ScanProofs.v -- the expression scanner (parse_until_text with nesting) is never cut
   short by "|" or "}" inside brackets, nor by anything inside string literals and comments. *)
From Coq Require Import Lia.
From MakoV Require Import Lib.Str Gen.Unicode Gen.LexerOrder Gen.Parsetree Model.Lexer Proofs.LexerProofs.
Open Scope N_scope.

Definition estops : list str := [[cPIPE]; [cRBRACE]].
Definition is_stopc (c : N) : bool := (c =? cPIPE) || (c =? cRBRACE).
Definition is_special (c : N) : bool := (c =? cDQ) || (c =? cSQ) || (c =? cHASH).

(* segments of an expression *)
Inductive seg :=
| SRun (t : str)          (* ordinary characters: no quote, no hash *)
| SLit (t : str)          (* a string literal *)
| SCom (t : str).         (* a comment through its newline *)

Definition seg_text (g : seg) : str := match g with SRun t | SLit t | SCom t => t end.
Definition segs_text (l : list seg) : str := flat_map seg_text l.

(* a literal the scanner recognises as one unit wherever it stands *)
Definition self_delimiting (t : str) : Prop := t <> [] /\ forall rest, scan_string (t ++ rest) = Some (t, rest).
Definition comment_shape (t : str) : Prop :=
  exists body, t = cHASH :: body ++ [LF] /\ forallb (fun x => negb (x =? LF)) body = true.

(* every "|" or "}" of a run stands at a position where some bracket count is positive; the
   counts are those of the runs read so far (literals and comments do not count) *)
Fixpoint run_ok (lv : levels) (t : str) : Prop :=
  match t with
  | [] => True
  | c :: r => is_special c = false /\ (is_stopc c = true -> nested lv = true) /\ run_ok (bump lv [c]) r
  end.

Fixpoint segs_ok (lv : levels) (l : list seg) : Prop :=
  match l with
  | [] => nested lv = false
  | SRun t :: r => run_ok lv t /\ segs_ok (bump lv t) r
  | SLit t :: r => self_delimiting t /\ segs_ok lv r
  | SCom t :: r => comment_shape t /\ segs_ok lv r
  end.

Lemma bump_app lv a b : bump (bump lv a) b = bump lv (a ++ b).
Proof.
  unfold bump. cbn [l_brace l_paren l_brack fst snd]. rewrite !countN_app. f_equal; f_equal; lia.
Qed.

Lemma bump_nil lv : bump lv [] = lv.
Proof. destruct lv as [[a b] [c d] [e f]]. unfold bump. cbn. rewrite !N.add_0_r. reflexivity. Qed.

Lemma try_delim_nonquote delim c s : delim <> [] -> hd 0 delim <> c -> try_delim delim (c :: s) = None.
Proof.
  intros Hd Hne. unfold try_delim. destruct delim as [|d ds]; [congruence|]. cbn [strip_prefix hd] in *.
  destruct (N.eqb_spec d c); [contradiction|reflexivity].
Qed.

Lemma scan_string_nonquote c s : (c =? cDQ) = false -> (c =? cSQ) = false -> scan_string (c :: s) = None.
Proof.
  intros H1 H2. apply N.eqb_neq in H1, H2. unfold scan_string.
  rewrite !try_delim_nonquote; try reflexivity; try discriminate; cbn [hd]; congruence.
Qed.

Lemma scan_hash_nonhash c s : (c =? cHASH) = false -> scan_hash_comment (c :: s) = None.
Proof. intros H. unfold scan_hash_comment. rewrite H. reflexivity. Qed.

Lemma first_stop_char c s : first_stop estops (c :: s) = if c =? cPIPE then Some ([cPIPE], s) else if c =? cRBRACE then Some ([cRBRACE], s) else None.
Proof.
  unfold estops. cbn [first_stop strip_prefix]. rewrite (N.eqb_sym cPIPE c), (N.eqb_sym cRBRACE c).
  destruct (c =? cPIPE); [reflexivity|]. destruct (c =? cRBRACE); reflexivity.
Qed.

(* the maximal stretch of a run without stop characters *)
Fixpoint plain_prefix (t : str) : str * str :=
  match t with
  | c :: r => if is_stopc c then ([], t) else let (a, b) := plain_prefix r in (c :: a, b)
  | [] => ([], [])
  end.

Lemma plain_prefix_eq t : fst (plain_prefix t) ++ snd (plain_prefix t) = t.
Proof.
  induction t as [|c r IH]; [reflexivity|]. cbn [plain_prefix]. destruct (is_stopc c); [reflexivity|].
  destruct (plain_prefix r) as [a b]. cbn [fst snd app] in *. rewrite IH. reflexivity.
Qed.

Lemma run_ok_special lv t : run_ok lv t -> forallb (fun c => negb (is_special c)) t = true.
Proof.
  revert lv. induction t as [|c r IH]; intros lv H; [reflexivity|]. cbn [run_ok forallb] in *.
  destruct H as [H1 [_ H3]]. rewrite H1, (IH _ H3). reflexivity.
Qed.

(* scan_run over a stop-free, special-free stretch followed by something that stops it *)
Lemma scan_run_plain a : forall x rest,
  forallb (fun c => negb (is_special c) && negb (is_stopc c)) a = true ->
  (is_special x = true \/ is_stopc x = true) ->
  scan_run estops (a ++ x :: rest) = Some (a, x :: rest).
Proof.
  induction a as [|c r IH]; intros x rest Ha Hx; cbn [app scan_run].
  - rewrite first_stop_char. unfold is_special, is_stopc in Hx.
    destruct (x =? cDQ), (x =? cSQ), (x =? cHASH), (x =? cPIPE), (x =? cRBRACE); cbn in *; try reflexivity;
      destruct Hx; discriminate.
  - cbn [forallb] in Ha. apply andb_true_iff in Ha as [Hc Hr]. apply andb_true_iff in Hc as [Hc1 Hc2].
    apply negb_true_iff in Hc1, Hc2. unfold is_special, is_stopc in Hc1, Hc2.
    apply orb_false_iff in Hc1 as [Hc1 Hc1c]. apply orb_false_iff in Hc1 as [Hc1a Hc1b].
    apply orb_false_iff in Hc2 as [Hc2a Hc2b].
    rewrite first_stop_char, Hc1a, Hc1b, Hc1c, Hc2a, Hc2b. cbn [orb].
    rewrite (IH x rest Hr Hx). reflexivity.
Qed.

Lemma plain_prefix_clean lv t : run_ok lv t ->
  forallb (fun c => negb (is_special c) && negb (is_stopc c)) (fst (plain_prefix t)) = true.
Proof.
  revert lv. induction t as [|c r IH]; intros lv H; [reflexivity|]. cbn [plain_prefix].
  destruct (is_stopc c) eqn:Hs; [reflexivity|]. cbn [run_ok] in H. destruct H as [H1 [_ H3]].
  specialize (IH _ H3). destruct (plain_prefix r) as [a b]. cbn [fst forallb] in *. rewrite H1, Hs, IH. reflexivity.
Qed.

Lemma run_ok_after_prefix lv t : run_ok lv t ->
  run_ok (bump lv (fst (plain_prefix t))) (snd (plain_prefix t)).
Proof.
  revert lv. induction t as [|c r IH]; intros lv H; cbn [plain_prefix].
  - cbn [fst snd]. exact I.
  - destruct (is_stopc c) eqn:Hs.
    + cbn [fst snd]. rewrite bump_nil. exact H.
    + cbn [run_ok] in H. destruct H as [_ [_ H3]]. specialize (IH _ H3).
      destruct (plain_prefix r) as [a b]. cbn [fst snd] in *.
      change (c :: a) with ([c] ++ a). rewrite <- bump_app. exact IH.
Qed.

Lemma lspan_app (p : N -> bool) a x r :
  forallb p a = true -> p x = false -> span p (a ++ x :: r) = (a, x :: r).
Proof.
  induction a as [|y a IH]; cbn [app span forallb]; intros Ha Hx.
  - rewrite Hx. reflexivity.
  - apply andb_true_iff in Ha as [Hy Ha]. rewrite Hy, (IH Ha Hx). reflexivity.
Qed.

Lemma scan_string_head s a b : scan_string s = Some (a, b) -> exists c r, s = c :: r /\ is_special c = true /\ (c =? cHASH) = false.
Proof.
  destruct s as [|c r]; [discriminate|]. intros H. exists c, r. split; [reflexivity|].
  destruct (c =? cDQ) eqn:E1.
  - apply N.eqb_eq in E1. subst c. split; reflexivity.
  - destruct (c =? cSQ) eqn:E2.
    + apply N.eqb_eq in E2. subst c. split; reflexivity.
    + rewrite (scan_string_nonquote c r E1 E2) in H. discriminate.
Qed.

Lemma plain_prefix_rest_stop : forall t a s0 b', plain_prefix t = (a, s0 :: b') -> is_stopc s0 = true.
Proof.
  induction t as [|y ys IH]; intros a s0 b' H; cbn [plain_prefix] in H; [discriminate|].
  destruct (is_stopc y) eqn:Hy.
  - injection H as _ E1 _. subst. exact Hy.
  - destruct (plain_prefix ys) as [a2 b2] eqn:E. injection H as _ Hb. subst b2. eapply IH. reflexivity.
Qed.

(* what may follow a run: a literal, a comment or the closing stop *)
Definition boundary (s : str) : Prop := exists x rest, s = x :: rest /\ (is_special x = true \/ is_stopc x = true).

Lemma put_loop_run : forall n t fuel acc lv tail,
  (length t <= n)%nat -> run_ok lv t -> boundary tail -> (length (t ++ tail) < fuel)%nat ->
  put_loop fuel true estops acc (t ++ tail) lv =
  put_loop (fuel - length t) true estops (acc ++ t) tail (bump lv t) \/
  exists f', (length tail < f')%nat /\
    put_loop fuel true estops acc (t ++ tail) lv = put_loop f' true estops (acc ++ t) tail (bump lv t).
Proof.
  induction n as [|n IH]; intros t fuel acc lv tail Hn Hok Hb Hf.
  - destruct t; [|cbn in Hn; lia]. right. exists fuel. cbn [app] in *. rewrite app_nil_r, bump_nil. split; [exact Hf|reflexivity].
  - destruct t as [|c t']. { right. exists fuel. cbn [app] in *. rewrite app_nil_r, bump_nil. split; [exact Hf|reflexivity]. }
    right. destruct fuel as [|f]; [cbn in Hf; lia|].
    cbn [run_ok] in Hok. destruct Hok as [Hsp [Hst Hrest]].
    unfold is_special in Hsp. apply orb_false_iff in Hsp as [Hsp Hh]. apply orb_false_iff in Hsp as [Hd Hq].
    cbn [app put_loop]. rewrite (scan_hash_nonhash c _ Hh), (scan_string_nonquote c _ Hd Hq), first_stop_char.
    destruct (is_stopc c) eqn:Hs.
    + (* a stop character inside brackets: consumed, counts adjusted *)
      specialize (Hst eq_refl). unfold is_stopc in Hs.
      assert (Hcase : (if c =? cPIPE then Some ([cPIPE], t' ++ tail) else if c =? cRBRACE then Some ([cRBRACE], t' ++ tail) else None) = Some ([c], t' ++ tail)).
      { destruct (N.eqb_spec c cPIPE) as [->|]; [reflexivity|]. destruct (N.eqb_spec c cRBRACE) as [->|]; [reflexivity|discriminate]. }
      rewrite Hcase, Hst. cbn [andb].
      assert (Hlen : (length (t' ++ tail) < f)%nat) by (cbn [app length] in Hf; lia).
      destruct (IH t' f (acc ++ [c]) (bump lv [c]) tail ltac:(cbn in Hn; lia) Hrest Hb Hlen) as [E|[f' [Hf' E]]].
      * exists (f - length t')%nat. split.
        { rewrite app_length in Hlen. lia. }
        rewrite E. rewrite <- app_assoc, bump_app. reflexivity.
      * exists f'. split; [exact Hf'|]. rewrite E, <- app_assoc, bump_app. reflexivity.
    + (* a stretch without stop characters is read as one run *)
      assert (Hnone : (if c =? cPIPE then Some ([cPIPE], t' ++ tail) else if c =? cRBRACE then Some ([cRBRACE], t' ++ tail) else None) = None).
      { unfold is_stopc in Hs. apply orb_false_iff in Hs as [-> ->]. reflexivity. }
      rewrite Hnone.
      pose proof (plain_prefix_eq (c :: t')) as Hsplit.
      assert (Hokc : run_ok lv (c :: t')).
      { cbn [run_ok]. split; [unfold is_special; rewrite Hd, Hq, Hh; reflexivity|]. split; [rewrite Hs; discriminate|exact Hrest]. }
      pose proof (plain_prefix_clean lv (c :: t') Hokc) as Hclean.
      pose proof (run_ok_after_prefix lv (c :: t') Hokc) as Hafter.
      destruct (plain_prefix (c :: t')) as [a b] eqn:Epp. cbn [fst snd] in *.
      assert (Ha : a <> []).
      { cbn [plain_prefix] in Epp. rewrite Hs in Epp. destruct (plain_prefix t'). injection Epp as <- _. discriminate. }
      assert (Hbnd : boundary (b ++ tail)).
      { destruct b as [|s0 b'].
        - exact Hb.
        - exists s0, (b' ++ tail). split; [reflexivity|]. right.
          apply (plain_prefix_rest_stop _ _ _ _ Epp). }
      destruct Hbnd as [x [rest' [Ebt Hx]]].
      assert (Hwhole : c :: t' ++ tail = a ++ x :: rest').
      { change (c :: t' ++ tail) with ((c :: t') ++ tail). rewrite <- Hsplit, <- app_assoc, Ebt. reflexivity. }
      rewrite Hwhole, (scan_run_plain a x rest' Hclean Hx).
      destruct a as [|a0 a']; [congruence|].
      rewrite <- Ebt.
      assert (Hlenb : (length b <= n)%nat).
      { assert (length (c :: t') = length ((a0 :: a') ++ b)) by (rewrite Hsplit; reflexivity). rewrite app_length in H. cbn [length] in *. lia. }
      assert (Hlen2 : (length (b ++ tail) < f)%nat).
      { assert (E : length ((c :: t') ++ tail) = length (((a0 :: a') ++ b) ++ tail)) by (rewrite Hsplit; reflexivity).
        rewrite <- app_assoc, !app_length in E. cbn [length app] in *. rewrite app_length in Hf. rewrite app_length. lia. }
      destruct (IH b f (acc ++ a0 :: a') (bump lv (a0 :: a')) tail Hlenb Hafter Hb Hlen2) as [E|[f' [Hf' E]]].
      * exists (f - length b)%nat. split; [rewrite app_length in Hlen2; lia|].
        rewrite E. rewrite <- app_assoc, bump_app, Hsplit. reflexivity.
      * exists f'. split; [exact Hf'|]. rewrite E, <- app_assoc, bump_app, Hsplit. reflexivity.
Qed.

(* no two adjacent runs: segment with maximal runs *)
Fixpoint no_adjacent_runs (l : list seg) : Prop :=
  match l with
  | SRun _ :: ((SRun _ :: _) as r) => False
  | _ :: r => no_adjacent_runs r
  | [] => True
  end.

Lemma seg_boundary lv l r : segs_ok lv l -> (match l with SRun _ :: _ => False | _ => True end) ->
  boundary (segs_text l ++ cRBRACE :: r).
Proof.
  destruct l as [|g l']; intros H Hn.
  - exists cRBRACE, r. split; [reflexivity|right; reflexivity].
  - destruct g as [t|t|t]; [contradiction| |]; cbn [segs_ok] in H; destruct H as [Hs _].
    + destruct Hs as [Hne Hsd]. pose proof (Hsd []) as E. rewrite app_nil_r in E.
      destruct (scan_string_head _ _ _ E) as [c [r' [-> [Hc _]]]].
      exists c, (r' ++ segs_text l' ++ cRBRACE :: r). split; [cbn [segs_text flat_map seg_text app]; rewrite <- app_assoc; reflexivity|left; exact Hc].
    + destruct Hs as [body [-> _]]. exists cHASH, ((body ++ [LF]) ++ segs_text l' ++ cRBRACE :: r).
      split; [cbn [segs_text flat_map seg_text app]; rewrite <- !app_assoc; reflexivity|left; reflexivity].
Qed.

(* the expression scanner returns the whole expression: "|" and "}" inside brackets, and anything
   inside string literals and comments, never cut it short -- for segment lists of any length,
   brackets nested to any depth *)
Theorem put_loop_segs : forall l acc lv r fuel,
  segs_ok lv l -> no_adjacent_runs l ->
  (length (segs_text l ++ cRBRACE :: r) < fuel)%nat ->
  put_loop fuel true estops acc (segs_text l ++ cRBRACE :: r) lv = Some (acc ++ segs_text l, [cRBRACE], r).
Proof.
  induction l as [|g l IH]; intros acc lv r fuel Hok Hadj Hf.
  - cbn [segs_text flat_map app] in *. cbn [segs_ok] in Hok. destruct fuel as [|f]; [cbn in Hf; lia|].
    cbn [put_loop]. rewrite (scan_hash_nonhash cRBRACE r eq_refl), (scan_string_nonquote cRBRACE r eq_refl eq_refl), first_stop_char.
    change (cRBRACE =? cPIPE) with false. change (cRBRACE =? cRBRACE) with true. cbv iota. rewrite Hok. cbn [andb].
    rewrite app_nil_r. reflexivity.
  - destruct g as [t|t|t]; cbn [segs_ok] in Hok; destruct Hok as [Hg Hrest].
    + (* a run *)
      assert (Hnext : match l with SRun _ :: _ => False | _ => True end).
      { destruct l as [|[t2|t2|t2] l']; cbn in Hadj; auto. }
      assert (Hadj' : no_adjacent_runs l) by (destruct l as [|[t2|t2|t2] l']; cbn in Hadj; auto; contradiction).
      pose proof (seg_boundary _ _ r Hrest Hnext) as Hb.
      change (segs_text (SRun t :: l)) with (t ++ segs_text l) in *. rewrite <- app_assoc in *.
      destruct (put_loop_run (length t) t fuel acc lv _ (le_n _) Hg Hb Hf) as [E|[f' [Hf' E]]].
      * rewrite E. rewrite app_assoc. apply IH; [exact Hrest|exact Hadj'|]. rewrite app_length in Hf. lia.
      * rewrite E. rewrite app_assoc. apply IH; [exact Hrest|exact Hadj'|exact Hf'].
    + (* a string literal: skipped as a unit *)
      assert (Hadj' : no_adjacent_runs l) by (cbn in Hadj; exact Hadj).
      destruct Hg as [Hne Hsd]. change (segs_text (SLit t :: l)) with (t ++ segs_text l) in *. rewrite <- app_assoc in *.
      destruct fuel as [|f]; [cbn in Hf; lia|]. cbn [put_loop].
      pose proof (Hsd (segs_text l ++ cRBRACE :: r)) as E.
      destruct (scan_string_head _ _ _ E) as [c [r' [Ecr [_ Hh]]]].
      rewrite Ecr, (scan_hash_nonhash c r' Hh), <- Ecr, E. rewrite app_assoc.
      apply IH; [exact Hrest|exact Hadj'|]. rewrite app_length in Hf. destruct t; [congruence|cbn [length] in Hf; lia].
    + (* a comment through its newline *)
      assert (Hadj' : no_adjacent_runs l) by (cbn in Hadj; exact Hadj).
      destruct Hg as [body [-> Hbody]]. change (segs_text (SCom (cHASH :: body ++ [LF]) :: l)) with ((cHASH :: body ++ [LF]) ++ segs_text l) in *.
      destruct fuel as [|f]; [cbn in Hf; lia|]. cbn [put_loop app].
      unfold scan_hash_comment. rewrite N.eqb_refl.
      replace (((body ++ [LF]) ++ segs_text l) ++ cRBRACE :: r) with (body ++ LF :: (segs_text l ++ cRBRACE :: r)) by (rewrite <- !app_assoc; reflexivity).
      rewrite (lspan_app _ body LF _ Hbody eq_refl).
      rewrite (IH (acc ++ cHASH :: body ++ [LF]) lv r f Hrest Hadj').
      * f_equal. f_equal. f_equal. rewrite <- app_assoc. reflexivity.
      * cbn [app length] in Hf. rewrite !app_length in Hf. cbn [length] in Hf. rewrite app_length. cbn [length]. lia.
Qed.

Theorem scan_balanced l r :
  segs_ok lv0 l -> no_adjacent_runs l ->
  parse_until true estops (segs_text l ++ cRBRACE :: r) = Some (segs_text l, [cRBRACE], r).
Proof. intros H1 H2. unfold parse_until. apply (put_loop_segs l [] lv0 r); [exact H1|exact H2|lia]. Qed.

(* simple literals are self-delimiting: a quote, characters without quote or backslash, the quote *)
Lemma simple_literal_self_delimiting q body :
  (q = cDQ \/ q = cSQ) -> body <> [] ->
  forallb (fun c => negb (c =? cDQ) && negb (c =? cSQ) && negb (c =? cBSLASH)) body = true ->
  self_delimiting (q :: body ++ [q]).
Proof.
  intros Hq Hne Hbody. split; [discriminate|]. intros rest.
  assert (Hscan : forall b, forallb (fun c => negb (c =? cDQ) && negb (c =? cSQ) && negb (c =? cBSLASH)) b = true ->
            scan_str_body [q] (b ++ q :: rest) = Some (b ++ [q], rest)).
  { induction b as [|c b' IHb]; intros Hb.
    - cbn [app scan_str_body strip_prefix]. rewrite N.eqb_refl. reflexivity.
    - cbn [forallb] in Hb. apply andb_true_iff in Hb as [Hc Hb']. apply andb_true_iff in Hc as [Hc Hbs]. apply andb_true_iff in Hc as [Hc1 Hc2].
      apply negb_true_iff in Hc1, Hc2, Hbs.
      cbn [app scan_str_body strip_prefix].
      assert (Hqc : (q =? c) = false).
      { destruct Hq as [-> | ->]; rewrite N.eqb_sym; assumption. }
      rewrite Hqc, Hbs, (IHb Hb'). reflexivity. }
  destruct body as [|b0 body']; [congruence|].
  assert (Hb0 : (b0 =? cDQ) = false /\ (b0 =? cSQ) = false).
  { cbn [forallb] in Hbody. apply andb_true_iff in Hbody as [Hc _]. apply andb_true_iff in Hc as [Hc _]. apply andb_true_iff in Hc as [Hc1 Hc2].
    apply negb_true_iff in Hc1, Hc2. auto. }
  destruct Hb0 as [Hb1 Hb2].
  assert (Hre : forall q0, b0 :: (body' ++ [q0]) ++ rest = (b0 :: body') ++ q0 :: rest)
    by (intros q0; cbn [app]; rewrite <- app_assoc; reflexivity).
  unfold scan_string. destruct Hq as [-> | ->].
  - (* the triple delimiters fail at the second character, the single double quote succeeds *)
    unfold try_delim. cbn [strip_prefix app]. rewrite N.eqb_refl, (N.eqb_sym cDQ b0), Hb1.
    change (cSQ =? cDQ) with false. cbv iota.
    rewrite Hre, (Hscan (b0 :: body') Hbody). reflexivity.
  - unfold try_delim. cbn [strip_prefix app]. change (cDQ =? cSQ) with false. cbv iota.
    rewrite N.eqb_refl, (N.eqb_sym cSQ b0), Hb2.
    rewrite Hre, (Hscan (b0 :: body') Hbody). reflexivity.
Qed.
