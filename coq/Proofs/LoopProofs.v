(* Proofs/LoopProofs.v -- lemmas behind the loop part of Properties/C03.v *)
From Coq Require Import Lia ZArith.
From MakoV Require Import Lib.Str Model.Loop.
Open Scope N_scope.
Arguments N.add : simpl never.
Arguments N.modulo : simpl never.
Ltac Zify.zify_post_hook ::= Z.to_euclidean_division_equations.

Definition stack_of (r : result) : lstack := fst (fst r).
Definition outcome_of (r : result) : outcome := snd (fst r).
Definition trace_of (r : result) : list obs := snd r.

(* ---- the stack is restored ----------------------------------------------------------------------- *)
Section Restore.
Variable ex : prog -> lstack -> result.
Hypothesis ex_keeps : forall q s, stack_of (ex q s) = s.

Lemma run_list_keeps l : forall s, stack_of (run_list ex l s) = s.
Proof.
  induction l as [|q r IH]; intros s; [reflexivity|]. cbn [run_list].
  pose proof (ex_keeps q s) as Hq. destruct (ex q s) as [[s1 o1] t1]. unfold stack_of in Hq. cbn [fst] in Hq. subst s1.
  destruct o1; try reflexivity. pose proof (IH s) as Hr. destruct (run_list ex r s) as [[s2 o2] t2]. exact Hr.
Qed.

(* iterating changes at most the index of the context on top *)
Lemma iterate_keeps_unmanaged body : forall k s, stack_of (iterate ex body k s false) = s.
Proof.
  induction k as [|k IH]; intros s; [reflexivity|]. cbn [iterate].
  pose proof (run_list_keeps body s) as Hb. destruct (run_list ex body s) as [[s1 o1] t1]. unfold stack_of in Hb. cbn [fst] in Hb. subst s1.
  destruct o1; try reflexivity. pose proof (IH s) as Hr. destruct (iterate ex body k s false) as [[s2 o2] t2]. exact Hr.
Qed.

Lemma iterate_keeps_managed body : forall k s, tl (stack_of (iterate ex body k s true)) = tl s.
Proof.
  induction k as [|k IH]; intros s; [reflexivity|]. cbn [iterate].
  pose proof (run_list_keeps body s) as Hb. destruct (run_list ex body s) as [[s1 o1] t1]. unfold stack_of in Hb. cbn [fst] in Hb. subst s1.
  destruct o1; try reflexivity. pose proof (IH (advance s)) as Hr. destruct (iterate ex body k (advance s) true) as [[s2 o2] t2].
  unfold stack_of in *. cbn [fst] in *. rewrite Hr. destruct s; reflexivity.
Qed.
End Restore.

(* for every program, every answer of the loop detector and every stack: when the construct ends --
   by exhaustion, break, return or an exception -- the loop stack is the one it started with *)
Theorem loop_restored rl : forall fuel p s, stack_of (exec rl fuel p s) = s.
Proof.
  induction fuel as [|f IH]; intros p s; [reflexivity|]. destruct p; cbn [exec]; try reflexivity.
  - destruct s; reflexivity.
  - destruct (rl (PFor n body)).
    + pose proof (iterate_keeps_managed (exec rl f) IH body n (enter (N.of_nat n) s)) as H.
      destruct (iterate (exec rl f) body n (enter (N.of_nat n) s) true) as [[s1 o1] t1]. unfold stack_of in *. cbn [fst] in *.
      unfold exit_. rewrite H. reflexivity.
    + apply iterate_keeps_unmanaged. exact IH.
  - pose proof (run_list_keeps (exec rl f) IH body s) as Hb. destruct (run_list (exec rl f) body s) as [[s1 o1] t1].
    unfold stack_of in Hb. cbn [fst] in Hb. subst s1. destruct o1; try reflexivity.
    pose proof (run_list_keeps (exec rl f) IH handler s) as Hh. destruct (run_list (exec rl f) handler s) as [[s2 o2] t2]. exact Hh.
Qed.

(* ---- what the body sees at each iteration -------------------------------------------------------------- *)
(* a loop whose body only observes: iteration i (from 0) sees index i of n, at depth one more than
   the enclosing loops, with the enclosing loop as parent *)
Fixpoint expected_obs (n : N) (depth : nat) (parent : option N) (i : N) (k : nat) : list obs :=
  match k with
  | O => []
  | S k' => ({| l_index := i; l_len := n |}, depth, parent) :: expected_obs n depth parent (i + 1) k'
  end.

Lemma iterate_observe (ex : prog -> lstack -> result) n rest :
  (forall c r, ex PObserve (c :: r) = (c :: r, ONormal, [(c, length (c :: r), option_map l_index (f_parent (c :: r)))])) ->
  forall k i,
  trace_of (iterate ex [PObserve] k ({| l_index := i; l_len := n |} :: rest) true) =
    expected_obs n (S (length rest)) (option_map l_index (f_parent ({| l_index := i; l_len := n |} :: rest))) i k /\
  outcome_of (iterate ex [PObserve] k ({| l_index := i; l_len := n |} :: rest) true) = ONormal.
Proof.
  intros Hobs. induction k as [|k IH]; intros i; [split; reflexivity|].
  cbn [iterate run_list]. rewrite Hobs. cbn [advance l_index l_len app].
  destruct (IH (i + 1)) as [H1 H2].
  destruct (iterate ex [PObserve] k ({| l_index := i + 1; l_len := n |} :: rest) true) as [[s2 o2] t2].
  unfold trace_of, outcome_of in *. cbn [fst snd] in *. subst o2. split; [|reflexivity].
  cbn [expected_obs app length]. f_equal. rewrite H1. destruct rest; reflexivity.
Qed.

Theorem loop_fields rl f n s :
  rl (PFor n [PObserve]) = true ->
  exec rl (S (S f)) (PFor n [PObserve]) s =
    (s, ONormal, expected_obs (N.of_nat n) (S (length s)) (option_map l_index (hd_error s)) 0 n).
Proof.
  intros Hrl. remember (S f) as g eqn:Eg. cbn [exec]. rewrite Hrl. unfold enter.
  assert (Hobs : forall c r, exec rl g PObserve (c :: r) = (c :: r, ONormal, [(c, length (c :: r), option_map l_index (f_parent (c :: r)))])).
  { intros c r. subst g. reflexivity. }
  destruct (iterate_observe (exec rl g) (N.of_nat n) s Hobs n 0) as [H1 H2].
  pose proof (iterate_keeps_managed (exec rl g) (loop_restored rl g) [PObserve] n ({| l_index := 0; l_len := N.of_nat n |} :: s)) as H3.
  destruct (iterate (exec rl g) [PObserve] n ({| l_index := 0; l_len := N.of_nat n |} :: s) true) as [[s1 o1] t1].
  unfold trace_of, outcome_of, stack_of in *. cbn [fst snd tl] in *. subst o1 t1. unfold exit_. rewrite H3.
  destruct s; reflexivity.
Qed.

(* the fields as functions of the iteration number and the length *)
Theorem fields_of_iteration i n : i < n ->
  let c := {| l_index := i; l_len := n |} in
  (f_first c = true <-> i = 0) /\ (f_last c = true <-> i = n - 1) /\
  (f_odd c = true <-> i mod 2 = 1) /\ f_even c = negb (f_odd c) /\
  f_reverse_index c = Z.of_N (n - i - 1) /\
  (forall A (vs : list A), vs <> [] -> f_cycle c vs = nth_error vs (N.to_nat (i mod N.of_nat (length vs)))).
Proof.
  intros Hi c. unfold c, f_first, f_last, f_odd, f_even, f_reverse_index, f_cycle. cbn [l_index l_len]. repeat split.
  - apply N.eqb_eq. - apply N.eqb_eq.
  - intros H. apply Z.eqb_eq in H. lia.
  - intros H. apply Z.eqb_eq. lia.
  - intros H. apply negb_true_iff, N.eqb_neq in H. lia.
  - intros H. apply negb_true_iff, N.eqb_neq. lia.
  - lia.
  - intros A vs Hv. destruct vs; [congruence|reflexivity].
Qed.
