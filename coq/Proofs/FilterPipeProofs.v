(* Proofs/FilterPipeProofs.v -- lemmas behind Properties/C02.v *)
From MakoV Require Import Lib.Str Gen.Filters Gen.Template Model.FilterPipe.
Open Scope N_scope.

Lemma drop_n_app a b : drop_n (a ++ b) = drop_n a ++ drop_n b.
Proof. unfold drop_n. apply filter_app. Qed.

Lemma has_n_app a b : has_n (a ++ b) = has_n a || has_n b.
Proof. unfold has_n. apply existsb_app. Qed.

(* which lists take part, for every D, P, L *)
Theorem pipeline_cases D P L :
  pipeline D (Some P) L true =
    if has_n L then drop_n L
    else if has_n P then drop_n P ++ drop_n L
    else drop_n D ++ drop_n P ++ drop_n L.
Proof.
  unfold pipeline, merged. destruct (has_n L) eqn:HL; [reflexivity|].
  rewrite has_n_app, HL, orb_false_r. destruct (has_n P) eqn:HP.
  - rewrite andb_false_r. apply drop_n_app.
  - rewrite andb_true_r. destruct D as [|d D']; cbn [negb].
    + rewrite drop_n_app. reflexivity.
    + rewrite !drop_n_app. reflexivity.
Qed.

Theorem pipeline_no_page D L :
  pipeline D None L true = if has_n L then drop_n L else drop_n D ++ drop_n L.
Proof.
  unfold pipeline, merged. destruct (has_n L) eqn:HL; [reflexivity|].
  destruct D as [|d D']; cbn [negb andb]; [reflexivity|]. apply drop_n_app.
Qed.

(* filter= on defs, blocks and <%text>, and buffer_filters: no defaults, no page filters *)
Theorem pipeline_nonexpr D P L : pipeline D P L false = drop_n L.
Proof. unfold pipeline, merged. destruct (has_n L); reflexivity. Qed.

(* the order of application: D first, then P, then L, each left to right *)
Theorem pipeline_order {V} (env : str -> V -> V) D P L v :
  has_n L = false -> has_n P = false ->
  apply_all env (pipeline D (Some P) L true) v =
  apply_all env (drop_n L) (apply_all env (drop_n P) (apply_all env (drop_n D) v)).
Proof.
  intros HL HP. rewrite pipeline_cases, HL, HP. unfold apply_all. rewrite !fold_left_app. reflexivity.
Qed.

Theorem n_in_expression_disables_both {V} (env : str -> V -> V) D P L v :
  has_n L = true -> apply_all env (pipeline D (Some P) L true) v = apply_all env (drop_n L) v.
Proof. intros HL. rewrite pipeline_cases, HL. reflexivity. Qed.

Theorem n_in_page_disables_default {V} (env : str -> V -> V) D P L v :
  has_n L = false -> has_n P = true ->
  apply_all env (pipeline D (Some P) L true) v = apply_all env (drop_n L) (apply_all env (drop_n P) v).
Proof. intros HL HP. rewrite pipeline_cases, HL, HP. unfold apply_all. rewrite fold_left_app. reflexivity. Qed.

(* without configuration the default filter list is [str] *)
Theorem default_is_str : default_default_filters = [s2l "str"].
Proof. vm_compute. reflexivity. Qed.

(* the built-in flag names denote the documented functions; every other name denotes itself *)
Theorem flags_denote_documented :
  locate_encode (s2l "h") = s2l "filters.html_escape" /\
  locate_encode (s2l "x") = s2l "filters.xml_escape" /\
  locate_encode (s2l "u") = s2l "filters.url_escape" /\
  locate_encode (s2l "trim") = s2l "filters.trim" /\
  locate_encode (s2l "entity") = s2l "filters.html_entities_escape" /\
  locate_encode (s2l "str") = s2l "str" /\
  locate_encode (s2l "unicode") = s2l "str" /\
  locate_encode (s2l "decode.utf8") = s2l "filters.decode.utf8".
Proof. vm_compute. repeat split. Qed.

Theorem other_names_denote_themselves name :
  is_decode name = false -> assocS name default_escapes = None -> locate_encode name = name.
Proof. intros H1 H2. unfold locate_encode. rewrite H1, H2. reflexivity. Qed.
