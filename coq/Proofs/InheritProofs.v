(* Proofs/InheritProofs.v -- lemmas behind Properties/C06.v *)
From Coq Require Import Lia.
From MakoV Require Import Lib.Str Model.Inherit.
Open Scope N_scope.

Definition defines (c : chain) (j : nat) (x : N) : Prop := exists t, nth_error c j = Some t /\ has_def t x = true.

(* every namespace answers with its own definition of a member, else the nearest one further toward the base *)
Theorem ns_lookup_towards_base : forall c i x j,
  lookup_from c i x = Some j <-> ((i <= j)%nat /\ defines c j x /\ forall m, (i <= m < j)%nat -> ~ defines c m x).
Proof.
  induction c as [|t r IH]; intros i x j.
  - cbn. split; [discriminate|]. intros (_ & (t & H & _) & _). destruct j; discriminate.
  - cbn [lookup_from]. destruct i as [|i'].
    + destruct (has_def t x) eqn:E.
      * split.
        -- intros [= <-]. repeat split; [lia|exists t; split; [reflexivity|exact E]|lia].
        -- intros (_ & _ & Hmin). destruct j as [|j']; [reflexivity|]. exfalso. apply (Hmin O); [lia|]. exists t. split; [reflexivity|exact E].
      * destruct (lookup_from r O x) as [j0|] eqn:El; cbn [option_map].
        -- apply IH in El as (_ & (t0 & Hn & Hd) & Hmin). split.
           ++ intros [= <-]. repeat split; [lia|exists t0; split; assumption|].
              intros m Hm (tm & Hnm & Hdm). destruct m as [|m']; [cbn in Hnm; congruence|].
              apply (Hmin m'); [lia|]. exists tm. split; assumption.
           ++ intros (_ & (tj & Hnj & Hdj) & Hminj). destruct j as [|j']; [cbn in Hnj; congruence|].
              f_equal. f_equal.
              destruct (PeanoNat.Nat.lt_trichotomy j' j0) as [Hlt|[Heq|Hgt]]; [|exact (eq_sym Heq)|].
              ** exfalso. apply (Hmin j'); [lia|]. exists tj. split; assumption.
              ** exfalso. apply (Hminj (S j0)); [lia|]. exists t0. split; assumption.
        -- split; [discriminate|]. intros (_ & (tj & Hnj & Hdj) & Hminj). destruct j as [|j']; [cbn in Hnj; congruence|].
           exfalso. assert (Hx : lookup_from r O x = Some j' \/ True) by (right; exact I).
           assert (Hs : exists j1, lookup_from r O x = Some j1).
           { clear Hx. revert Hnj Hdj. clear. revert j'. induction r as [|t1 r1 IHr]; intros j' Hn Hd; [destruct j'; discriminate|].
             cbn [lookup_from]. destruct (has_def t1 x) eqn:E1; [eexists; reflexivity|].
             destruct j' as [|j'']; [cbn in Hn; congruence|]. destruct (IHr j'' Hn Hd) as [j1 ->]. eexists; reflexivity. }
           destruct Hs as [j1 Hj1]. congruence.
    + split.
      * intros H. destruct (lookup_from r i' x) as [j0|] eqn:El; [|discriminate]. injection H as <-.
        apply IH in El as (Hle & (t0 & Hn & Hd) & Hmin). repeat split; [lia|exists t0; split; assumption|].
        intros m Hm (tm & Hnm & Hdm). destruct m as [|m']; [lia|]. apply (Hmin m'); [lia|]. exists tm. split; assumption.
      * intros (Hle & (tj & Hnj & Hdj) & Hminj). destruct j as [|j']; [lia|].
        assert (El : lookup_from r i' x = Some j').
        { apply IH. repeat split; [lia|exists tj; split; assumption|]. intros m Hm (tm & Hnm & Hdm). apply (Hminj (S m)); [lia|]. exists tm. split; assumption. }
        rewrite El. reflexivity.
Qed.

(* self.X is the most derived definition of X *)
Theorem self_is_most_derived c x j :
  lookup_from c O x = Some j <-> (defines c j x /\ forall m, (m < j)%nat -> ~ defines c m x).
Proof.
  rewrite ns_lookup_towards_base. split.
  - intros (_ & H1 & H2). split; [exact H1|]. intros m Hm. apply H2. lia.
  - intros (H1 & H2). repeat split; [lia|exact H1|]. intros m Hm. apply H2. lia.
Qed.

(* next and parent are the adjacent templates, local is the template itself *)
Theorem next_parent_adjacent c k : (k < length c)%nat ->
  resolve c k WLocal = Some k /\ resolve c k WSelf = Some O /\
  (resolve c k WNext = match k with O => None | S k' => Some k' end) /\
  (resolve c k WParent = if Nat.ltb (S k) (length c) then Some (S k) else None).
Proof. intros _. repeat split. Qed.

(* a named block is rendered at its position in template k exactly when no template further toward
   the base defines a member of that name: among the templates that declare it, only the base-most *)
Theorem named_block_guard c k b : (k < length c)%nat ->
  (block_renders c k b = true <-> forall j, (k < j)%nat -> ~ defines c j b).
Proof.
  intros Hk. unfold block_renders, resolve. destruct (Nat.ltb (S k) (length c)) eqn:E.
  - destruct (lookup_from c (S k) b) as [j0|] eqn:El.
    + apply ns_lookup_towards_base in El as (Hle & Hd & _). split; [discriminate|]. intros H. exfalso. apply (H j0); [lia|exact Hd].
    + split; [|reflexivity]. intros _ j Hj Hd.
      (* a definer beyond k would have been found *)
      assert (Hex : exists j1, lookup_from c (S k) b = Some j1).
      { clear El E Hk. revert k j Hj Hd. induction c as [|t r IHc]; intros k j Hj (tj & Hn & Hdj); [destruct j; discriminate|].
        destruct j as [|j']; [lia|]. cbn [lookup_from]. cbn in Hn.
        destruct k as [|k'].
        - (* from index 1 = from index 0 of the rest *)
          assert (Hs : exists j1, lookup_from r O b = Some j1).
          { revert Hn Hdj. clear. revert j'. induction r as [|t1 r1 IHr]; intros j' Hn Hd; [destruct j'; discriminate|].
            cbn [lookup_from]. destruct (has_def t1 b) eqn:E1; [eexists; reflexivity|].
            destruct j' as [|j'']; [cbn in Hn; congruence|]. destruct (IHr j'' Hn Hd) as [j1 ->]. eexists; reflexivity. }
          destruct Hs as [j1 ->]. eexists; reflexivity.
        - destruct (IHc k' j' ltac:(lia) (ex_intro _ tj (conj Hn Hdj))) as [j1 ->]. eexists; reflexivity. }
      destruct Hex as [j1 Hj1]. congruence.
  - split; [|reflexivity]. intros _ j Hj (tj & Hn & _). apply PeanoNat.Nat.ltb_ge in E.
    assert (j < length c)%nat by (apply nth_error_Some; congruence). lia.
Qed.

Theorem named_block_at_most_once c k1 k2 b : (k1 < k2 < length c)%nat ->
  defines c k2 b -> block_renders c k1 b = false.
Proof.
  intros Hk Hd. destruct (block_renders c k1 b) eqn:E; [|reflexivity].
  assert (Hk1 : (k1 < length c)%nat) by lia. pose proof (proj1 (named_block_guard c k1 b Hk1) E) as E'. exfalso. apply (E' k2); [lia|exact Hd].
Qed.

(* module attributes are found the same way: the template's own module, else the nearest toward the
   base that binds the name -- whatever value it binds it to *)
Definition binds_attr (c : chain) (j : nat) (x : N) : Prop := exists t, nth_error c j = Some t /\ In x (attrs t).

Theorem attr_lookup_towards_base : forall c i x j,
  attr_from c i x = Some j -> (i <= j)%nat /\ binds_attr c j x /\ forall m, (i <= m < j)%nat -> ~ binds_attr c m x.
Proof.
  induction c as [|t r IH]; intros i x j H; [discriminate|]. cbn [attr_from] in H. destruct i as [|i'].
  - destruct (memN x (attrs t)) eqn:E.
    + injection H as <-. repeat split; [lia|exists t; split; [reflexivity|apply memN_In; exact E]|lia].
    + destruct (attr_from r O x) as [j0|] eqn:El; [|discriminate]. injection H as <-.
      apply IH in El as (_ & (t0 & Hn & Hd) & Hmin). repeat split; [lia|exists t0; split; assumption|].
      intros m Hm (tm & Hnm & Hdm). destruct m as [|m'].
      * cbn in Hnm. injection Hnm as <-. apply memN_In in Hdm. congruence.
      * apply (Hmin m'); [lia|]. exists tm. split; assumption.
  - destruct (attr_from r i' x) as [j0|] eqn:El; [|discriminate]. injection H as <-.
    apply IH in El as (Hle & (t0 & Hn & Hd) & Hmin). repeat split; [lia|exists t0; split; assumption|].
    intros m Hm (tm & Hnm & Hdm). destruct m as [|m']; [lia|]. apply (Hmin m'); [lia|]. exists tm. split; assumption.
Qed.
