(* Proofs/LexerProofs.v -- lemmas behind Properties/C01.v: every scanner is a split of its
   input (consumed ++ rest = input), hence the slices of the lexer's events tile the source. *)
From Coq Require Import Lia.
From MakoV Require Import Lib.Str Gen.Unicode Gen.LexerOrder Gen.Parsetree Model.Lexer.
Open Scope N_scope.

Ltac app_norm := repeat (progress (rewrite <- ?app_assoc; cbn [app])); try reflexivity.

(* ---- combinators --------------------------------------------------------------------------- *)
Lemma span_split p s : fst (span p s) ++ snd (span p s) = s.
Proof.
  induction s as [|c r IH]; [reflexivity|]. cbn [span]. destruct (p c); [|reflexivity].
  destruct (span p r) as [a b]. cbn [fst snd] in *. cbn [app]. rewrite IH. reflexivity.
Qed.

Lemma span_eq p s a b : span p s = (a, b) -> a ++ b = s.
Proof. intros H. pose proof (span_split p s) as E. rewrite H in E. exact E. Qed.

Lemma strip_prefix_eq p s r : strip_prefix p s = Some r -> p ++ r = s.
Proof. intros H. apply strip_prefix_spec in H. auto. Qed.

Lemma find_lit_eq lit s a b : find_lit lit s = Some (a, b) -> a ++ b = s.
Proof.
  revert a b. induction s as [|c r IH]; intros a b; cbn [find_lit].
  - destruct (starts_with lit []); [intros [= <- <-]; reflexivity|discriminate].
  - destruct (starts_with lit (c :: r)); [intros [= <- <-]; reflexivity|].
    destruct (find_lit lit r) as [[a' b']|]; [|discriminate]. intros [= <- <-].
    cbn [app]. rewrite (IH a' b' eq_refl). reflexivity.
Qed.

Lemma eat_newline_eq s nl r : eat_newline s = Some (nl, r) -> nl ++ r = s /\ nl <> [].
Proof.
  unfold eat_newline. destruct s as [|c s']; [discriminate|].
  destruct (N.eqb_spec c LF) as [->|H1]; [intros [= <- <-]; split; [reflexivity|discriminate]|].
  destruct (N.eqb_spec c CR) as [->|H2]; [|discriminate].
  destruct s' as [|d s'']; [discriminate|].
  destruct (N.eqb_spec d LF) as [->|H3]; [intros [= <- <-]; split; [reflexivity|discriminate]|discriminate].
Qed.

(* ---- parse_until_text ------------------------------------------------------------------------ *)
Lemma scan_hash_comment_eq s c r : scan_hash_comment s = Some (c, r) -> c ++ r = s /\ c <> [].
Proof.
  unfold scan_hash_comment. destruct s as [|x s']; [discriminate|].
  destruct (x =? cHASH); [|discriminate].
  destruct (span (fun y => negb (y =? LF)) s') as [run rest] eqn:E.
  destruct rest as [|l rest2]; [discriminate|]. intros [= <- <-].
  apply span_eq in E. split; [|discriminate]. cbn [app]. rewrite <- app_assoc. cbn [app]. rewrite E. reflexivity.
Qed.

Lemma scan_str_body_eq delim : forall s a b, scan_str_body delim s = Some (a, b) -> a ++ b = s.
Proof.
  fix IH 1. intros s a b. destruct s as [|c r1]; cbn [scan_str_body].
  - destruct (strip_prefix delim []) as [rest|] eqn:E; [|discriminate].
    intros [= <- <-]. apply strip_prefix_eq. exact E.
  - destruct (strip_prefix delim (c :: r1)) as [rest|] eqn:E.
    + intros [= <- <-]. apply strip_prefix_eq. exact E.
    + destruct (c =? cBSLASH).
      * destruct r1 as [|x r2]; [discriminate|].
        destruct (scan_str_body delim r2) as [[a' b']|] eqn:E2; [|discriminate].
        intros [= <- <-]. cbn [app]. rewrite (IH r2 a' b' E2). reflexivity.
      * destruct (scan_str_body delim r1) as [[a' b']|] eqn:E2; [|discriminate].
        intros [= <- <-]. cbn [app]. rewrite (IH r1 a' b' E2). reflexivity.
Qed.

Lemma try_delim_eq delim s a b : delim <> [] -> try_delim delim s = Some (a, b) -> a ++ b = s /\ a <> [].
Proof.
  intros Hd. unfold try_delim. destruct (strip_prefix delim s) as [r|] eqn:E; [|discriminate].
  destruct (scan_str_body delim r) as [[a' b']|] eqn:E2; [|discriminate]. intros [= <- <-].
  apply strip_prefix_eq in E. apply scan_str_body_eq in E2. split.
  - rewrite <- app_assoc, E2. exact E.
  - destruct delim; [congruence|discriminate].
Qed.

Lemma scan_string_eq s a b : scan_string s = Some (a, b) -> a ++ b = s /\ a <> [].
Proof.
  assert (N3 : [cDQ; cDQ; cDQ] <> []) by discriminate. assert (N3' : [cSQ; cSQ; cSQ] <> []) by discriminate.
  assert (N1 : [cDQ] <> []) by discriminate. assert (N1' : [cSQ] <> []) by discriminate.
  unfold scan_string.
  destruct (try_delim [cDQ; cDQ; cDQ] s) as [x|] eqn:E1; [intros [= ->]; apply (try_delim_eq _ _ _ _ N3 E1)|].
  destruct (try_delim [cSQ; cSQ; cSQ] s) as [x|] eqn:E2; [intros [= ->]; apply (try_delim_eq _ _ _ _ N3' E2)|].
  destruct (try_delim [cDQ] s) as [x|] eqn:E3; [intros [= ->]; apply (try_delim_eq _ _ _ _ N1 E3)|].
  intros E4. apply (try_delim_eq _ _ _ _ N1' E4).
Qed.

Lemma first_stop_eq stops s t r : first_stop stops s = Some (t, r) -> t ++ r = s /\ In t stops.
Proof.
  induction stops as [|t0 ts IH]; cbn [first_stop]; [discriminate|].
  destruct (strip_prefix t0 s) as [r0|] eqn:E.
  - intros [= <- <-]. split; [apply strip_prefix_eq; exact E|left; reflexivity].
  - intros H. destruct (IH H) as [A B]. split; [exact A|right; exact B].
Qed.

Lemma scan_run_eq stops : forall s a b, scan_run stops s = Some (a, b) -> a ++ b = s.
Proof.
  induction s as [|c r IH]; intros a b; cbn [scan_run]; [discriminate|].
  destruct ((c =? cDQ) || (c =? cSQ) || (c =? cHASH) || match first_stop stops (c :: r) with Some _ => true | None => false end).
  - intros [= <- <-]. reflexivity.
  - destruct (scan_run stops r) as [[a' b']|] eqn:E; [|discriminate]. intros [= <- <-].
    cbn [app]. rewrite (IH a' b' eq_refl). reflexivity.
Qed.

Lemma put_loop_eq fuel nest stops : forall acc s lv text stop rest,
  put_loop fuel nest stops acc s lv = Some (text, stop, rest) ->
  text ++ stop ++ rest = acc ++ s.
Proof.
  induction fuel as [|f IH]; intros acc s lv text stop rest; cbn [put_loop]; [discriminate|].
  destruct (scan_hash_comment s) as [[c r]|] eqn:E1.
  { intros H. rewrite (IH _ _ _ _ _ _ H). destruct (scan_hash_comment_eq _ _ _ E1) as [<- _]. rewrite app_assoc. reflexivity. }
  destruct (scan_string s) as [[c r]|] eqn:E2.
  { intros H. rewrite (IH _ _ _ _ _ _ H). destruct (scan_string_eq _ _ _ E2) as [<- _]. rewrite app_assoc. reflexivity. }
  destruct (first_stop stops s) as [[t r]|] eqn:E3.
  { destruct (first_stop_eq _ _ _ _ E3) as [<- _]. destruct (nest && nested lv).
    - intros H. rewrite (IH _ _ _ _ _ _ H). rewrite app_assoc. reflexivity.
    - intros [= <- <- <-]. reflexivity. }
  destruct (scan_run stops s) as [[run r]|] eqn:E4; [|discriminate].
  apply scan_run_eq in E4. destruct run as [|x run'].
  - destruct s as [|c s']; [discriminate|]. intros H. rewrite (IH _ _ _ _ _ _ H).
    rewrite <- app_assoc. reflexivity.
  - intros H. rewrite (IH _ _ _ _ _ _ H). rewrite <- E4, app_assoc. reflexivity.
Qed.

Lemma parse_until_eq nest stops s text stop rest :
  parse_until nest stops s = Some (text, stop, rest) -> text ++ stop ++ rest = s.
Proof. unfold parse_until. intros H. apply put_loop_eq in H. exact H. Qed.

(* ---- control line ------------------------------------------------------------------------------ *)
Definition lastc_ok (orig : str) (lastc : option (str * str * str)) : Prop :=
  match lastc with Some (t, nl, r) => t ++ nl ++ r = orig | None => True end.

Lemma scan_ctl_items_eq orig : forall s acc lastc pend text rest lc,
  acc ++ s = orig -> lastc_ok orig lastc ->
  scan_ctl_items s acc lastc pend = (text, rest, lc) ->
  text ++ rest = orig /\ lastc_ok orig lc.
Proof.
  induction s as [|c r IH]; intros acc lastc pend text rest lc Ho Hl; cbn [scan_ctl_items].
  - intros [= <- <- <-]. split; [exact Ho|exact Hl].
  - assert (Hstep : (acc ++ [c]) ++ r = orig) by (rewrite <- app_assoc; exact Ho).
    destruct pend as [|k]; [|apply (IH _ _ _ _ _ _ Hstep Hl)].
    destruct (c =? cBSLASH).
    + destruct (eat_newline r) as [[nl r2]|] eqn:En.
      * apply IH; [exact Hstep|]. cbn [lastc_ok]. destruct (eat_newline_eq _ _ _ En) as [E _].
        rewrite E. exact Hstep.
      * apply IH; assumption.
    + destruct ((c =? CR) || (c =? LF)).
      * intros [= <- <- <-]. split; assumption.
      * apply IH; assumption.
Qed.

Lemma scan_control_line_eq s o lead text nl rest :
  scan_control_line s = Some (o, lead, text, nl, rest) ->
  lead ++ text ++ nl ++ rest = s /\ lead <> [].
Proof.
  unfold scan_control_line. destruct (span is_blank s) as [ind r0] eqn:E0. apply span_eq in E0.
  set (op := match r0 with
             | a :: r1 => if a =? cPCT then match r1 with b :: _ => if b =? cPCT then None else Some (CtlPercent, [a], r1) | [] => Some (CtlPercent, [a], r1) end
                          else if a =? cHASH then match r1 with b :: r2 => if b =? cHASH then Some (CtlHash, [a; b], r2) else None | [] => None end
                          else None
             | [] => None end).
  assert (Hop : forall o' optxt r1, op = Some (o', optxt, r1) -> optxt ++ r1 = r0 /\ optxt <> []).
  { unfold op. intros o' optxt r1. destruct r0 as [|a r1']; [discriminate|].
    destruct (a =? cPCT).
    - destruct r1' as [|b r2']; [intros [= <- <- <-]; split; [reflexivity|discriminate]|].
      destruct (b =? cPCT); [discriminate|intros [= <- <- <-]; split; [reflexivity|discriminate]].
    - destruct (a =? cHASH); [|discriminate]. destruct r1' as [|b r2']; [discriminate|].
      destruct (b =? cHASH); [intros [= <- <- <-]; split; [reflexivity|discriminate]|discriminate]. }
  destruct op as [[[o' optxt] r1]|]; [|discriminate]. destruct (Hop _ _ _ eq_refl) as [Eop Hne].
  destruct (span is_blank r1) as [bl r2] eqn:E2. apply span_eq in E2.
  destruct (scan_ctl_items r2 [] None 0) as [[text' rest'] lastc] eqn:E3.
  destruct (scan_ctl_items_eq r2 r2 [] None 0%nat text' rest' lastc eq_refl I E3) as [E4 Hlc].
  assert (Hall : forall t n rr, t ++ n ++ rr = r2 -> (ind ++ optxt ++ bl) ++ t ++ n ++ rr = s).
  { intros t n rr H. rewrite H, <- !app_assoc, E2, Eop. exact E0. }
  assert (Hlead : ind ++ optxt ++ bl <> []).
  { destruct ind; [destruct optxt; [congruence|discriminate]|discriminate]. }
  destruct rest' as [|x rest''].
  - intros [= <- <- <- <- <-]. split; [|exact Hlead]. apply Hall. rewrite app_nil_r in E4. cbn [app]. rewrite app_nil_r. exact E4.
  - destruct (eat_newline (x :: rest'')) as [[nl' rest2]|] eqn:En.
    + intros [= <- <- <- <- <-]. split; [|exact Hlead]. apply Hall.
      destruct (eat_newline_eq _ _ _ En) as [E _]. rewrite E. exact E4.
    + destruct lastc as [[[t nl'] rest2]|]; [|discriminate].
      intros [= <- <- <- <- <-]. split; [|exact Hlead]. apply Hall. exact Hlc.
Qed.

(* ---- doc comment, tags, percent, text, coding ---------------------------------------------------- *)
Lemma scan_doc_eq s body src rest : scan_doc s = Some (body, src, rest) -> src ++ rest = s /\ src <> [].
Proof.
  unfold scan_doc. destruct (strip_prefix (s2l "<%doc>") s) as [r|] eqn:E1; [|discriminate].
  destruct (find_lit (s2l "</%doc>") r) as [[b r2]|] eqn:E2; [|discriminate].
  destruct (strip_prefix (s2l "</%doc>") r2) as [rest'|] eqn:E3; [|discriminate].
  intros [= <- <- <-]. apply strip_prefix_eq in E1, E3. apply find_lit_eq in E2. split; [|discriminate].
  rewrite <- E1, <- E2, <- E3. repeat (progress (rewrite <- ?app_assoc; cbn [app])). reflexivity.
Qed.

Lemma scan_quoted_eq q s a b : scan_quoted q s = Some (a, b) -> exists body, a = q :: body /\ body ++ b = s.
Proof.
  unfold scan_quoted. destruct (span (fun x => negb (x =? q)) s) as [body r] eqn:E. apply span_eq in E.
  destruct r as [|x rest]; [discriminate|]. intros [= <- <-].
  exists (body ++ [x]). split; [reflexivity|]. rewrite <- app_assoc. exact E.
Qed.

Lemma scan_attr_items_eq fuel : forall aftereq wsafter acc s attr rest,
  scan_attr_items fuel aftereq wsafter acc s = (attr, rest) -> attr ++ rest = acc ++ s.
Proof.
  induction fuel as [|f IH]; intros aftereq wsafter acc s attr rest; cbn [scan_attr_items].
  - intros [= <- <-]. reflexivity.
  - destruct (span is_space s) as [ws r] eqn:E. apply span_eq in E.
    destruct r as [|c r1]; [intros [= <- <-]; reflexivity|].
    destruct ((c =? cEQ) || (c =? cCOMMA)).
    + destruct (span is_space r1) as [ws2 r2] eqn:E2. apply span_eq in E2.
      intros H. rewrite (IH _ _ _ _ _ _ H). rewrite <- E, <- E2, <- !app_assoc. reflexivity.
    + destruct (is_word c).
      * destruct (negb match ws with [] => true | _ :: _ => false end || aftereq && wsafter);
          [|intros [= <- <-]; reflexivity].
        destruct (span is_word (c :: r1)) as [w r2] eqn:E2. apply span_eq in E2.
        intros H. rewrite (IH _ _ _ _ _ _ H). rewrite <- E, <- E2, <- !app_assoc. reflexivity.
      * destruct ((c =? cDQ) || (c =? cSQ)); [|intros [= <- <-]; reflexivity].
        destruct ws; [|intros [= <- <-]; reflexivity].
        destruct (scan_quoted c r1) as [[q r2]|] eqn:Eq; [|intros [= <- <-]; reflexivity].
        destruct (scan_quoted_eq _ _ _ _ Eq) as [body [-> Hb]].
        intros H. rewrite (IH _ _ _ _ _ _ H). cbn [app] in E. rewrite <- E, <- Hb, <- !app_assoc. reflexivity.
Qed.

Lemma scan_tag_start_eq s kw attrs sc src rest :
  scan_tag_start s = Some (kw, attrs, sc, src, rest) -> src ++ rest = s /\ src <> [].
Proof.
  unfold scan_tag_start. destruct (strip_prefix [cLT; cPCT] s) as [r0|] eqn:E0; [|discriminate].
  apply strip_prefix_eq in E0.
  destruct (span is_kwchar r0) as [k r1] eqn:E1. apply span_eq in E1.
  destruct k as [|k0 k']; [discriminate|].
  destruct (scan_attr_items (S (length r1)) false false [] r1) as [attr r2] eqn:E2.
  apply scan_attr_items_eq in E2. cbn [app] in E2.
  destruct (span is_space r2) as [ws r3] eqn:E3. apply span_eq in E3.
  destruct r3 as [|a r4]; [discriminate|].
  assert (Hpre : forall tail rr, tail ++ rr = a :: r4 -> ([cLT; cPCT] ++ (k0 :: k') ++ attr ++ ws ++ tail) ++ rr = s).
  { intros tail rr H. rewrite <- E0, <- E1, <- E2, <- E3, <- H. app_norm. }
  destruct (a =? cGT).
  - intros [= <- <- <- <- <-]. split; [apply Hpre; reflexivity|discriminate].
  - destruct (a =? cSLASH); [|discriminate]. destruct r4 as [|b r5]; [discriminate|].
    destruct (b =? cGT); [|discriminate]. intros [= <- <- <- <- <-].
    split; [apply Hpre; reflexivity|discriminate].
Qed.

Lemma scan_tag_end_name_eq : forall s acc name tail rest,
  scan_tag_end_name s acc = Some (name, tail, rest) -> name ++ tail ++ rest = acc ++ s.
Proof.
  induction s as [|c r IH]; intros acc name tail rest; cbn [scan_tag_end_name]; [discriminate|].
  set (tc := match acc with
             | [] => None
             | _ :: _ => let (bl, r2) := span is_blank (c :: r) in
                         match r2 with g :: rest0 => if g =? cGT then Some (acc, bl ++ [g], rest0) else None | [] => None end
             end).
  assert (Htc : forall x, tc = Some x -> fst (fst x) ++ snd (fst x) ++ snd x = acc ++ c :: r).
  { unfold tc. intros x. destruct acc as [|a0 acc']; [discriminate|].
    destruct (span is_blank (c :: r)) as [bl r2] eqn:E. apply span_eq in E.
    destruct r2 as [|g rest0]; [discriminate|]. destruct (g =? cGT); [|discriminate].
    intros [= <-]. cbn [fst snd]. rewrite <- E, <- !app_assoc. reflexivity. }
  destruct tc as [x|].
  - intros [= ->]. apply (Htc _ eq_refl).
  - destruct (is_blank c); [discriminate|]. intros H. rewrite (IH _ _ _ _ H), <- app_assoc. reflexivity.
Qed.

Lemma scan_tag_end_eq s name src rest : scan_tag_end s = Some (name, src, rest) -> src ++ rest = s /\ src <> [].
Proof.
  unfold scan_tag_end. destruct (strip_prefix [cLT; cSLASH; cPCT] s) as [r0|] eqn:E0; [|discriminate].
  apply strip_prefix_eq in E0. destruct (span is_blank r0) as [bl r1] eqn:E1. apply span_eq in E1.
  destruct (scan_tag_end_name r1 []) as [[[nm tail] rest']|] eqn:E2; [|discriminate].
  apply scan_tag_end_name_eq in E2. cbn [app] in E2. intros [= <- <- <-]. split; [|discriminate].
  rewrite <- E0, <- E1, <- E2. app_norm.
Qed.

Lemma scan_percent_eq s ws ps src rest : scan_percent s = Some (ws, ps, src, rest) -> src ++ rest = s /\ src <> [].
Proof.
  unfold scan_percent. destruct (span is_space s) as [w r] eqn:E. apply span_eq in E.
  destruct (strip_prefix [cPCT; cPCT] r) as [r2|] eqn:E2; [|discriminate]. apply strip_prefix_eq in E2.
  destruct (span (fun x => x =? cPCT) r2) as [p rest'] eqn:E3. apply span_eq in E3.
  intros [= <- <- <- <-]. split.
  - rewrite <- E, <- E2, <- E3. app_norm.
  - destruct w; discriminate.
Qed.

Lemma scan_text_eq : forall s prev t d rest, scan_text prev s = (t, d, rest) -> t ++ d ++ rest = s.
Proof.
  induction s as [|c r IH]; intros prev t d rest; cbn [scan_text].
  - destruct (text_stop_here prev []); intros [= <- <- <-]; reflexivity.
  - destruct (text_stop_here prev (c :: r)); [intros [= <- <- <-]; reflexivity|].
    set (cont := if c =? cBSLASH then eat_newline r else None).
    assert (Hc : forall nl r2, cont = Some (nl, r2) -> nl ++ r2 = r).
    { unfold cont. intros nl r2. destruct (c =? cBSLASH); [|discriminate]. intros H. apply (eat_newline_eq _ _ _ H). }
    destruct cont as [[nl r2]|].
    + intros [= <- <- <-]. cbn [app]. rewrite (Hc _ _ eq_refl). reflexivity.
    + destruct (scan_text (Some c) r) as [[t' d'] rest'] eqn:E. intros [= <- <- <-].
      cbn [app]. rewrite (IH _ _ _ _ E). reflexivity.
Qed.

Lemma scan_coding_eq s src rest : scan_coding s = Some (src, rest) -> src ++ rest = s.
Proof.
  unfold scan_coding. destruct s as [|c r]; [discriminate|]. destruct (c =? cHASH); [|discriminate].
  destruct (span (fun x => negb (x =? LF)) r) as [line rest'] eqn:E. apply span_eq in E.
  destruct rest' as [|l rest2]; [discriminate|]. destruct (has_coding line); [|discriminate].
  intros [= <- <-]. cbn [app]. rewrite <- app_assoc. cbn [app]. rewrite E. reflexivity.
Qed.

(* ---- the lexer: every step consumes a non-empty slice and appends it to the events ------------- *)

Definition srcs (st : lstate) : str := flat_map ev_src (rev (evs st)).

Definition consumed_by (st st' : lstate) : Prop :=
  exists cons, cons <> [] /\ c_rest (cur st) = cons ++ c_rest (cur st') /\ srcs st' = srcs st ++ cons.

Lemma srcs_push st e c' : srcs (push_ev st e c') = srcs st ++ ev_src e.
Proof. unfold srcs, push_ev. cbn [evs rev]. rewrite flat_map_app. cbn [flat_map]. rewrite app_nil_r. reflexivity. Qed.

Lemma srcs_cons l e : flat_map ev_src (rev (e :: l)) = flat_map ev_src (rev l) ++ ev_src e.
Proof. cbn [rev]. rewrite flat_map_app. cbn [flat_map]. rewrite app_nil_r. reflexivity. Qed.

Lemma one_event st c' k src :
  src <> [] -> c_rest (cur st) = src ++ c_rest c' ->
  consumed_by st (push_ev st (mk_event (cur st) k src) c').
Proof.
  intros Hne Hr. exists src. split; [exact Hne|]. split; [exact Hr|]. rewrite srcs_push. reflexivity.
Qed.

Lemma m_expression_ok st st' : m_expression st = Continue st' -> consumed_by st st'.
Proof.
  unfold m_expression. destruct (strip_prefix [cDOLLAR; cLBRACE] (c_rest (cur st))) as [r0|] eqn:E0; [|discriminate].
  apply strip_prefix_eq in E0.
  destruct (parse_until true [[cPIPE]; [cRBRACE]] r0) as [[[text stop] r1]|] eqn:E1; [|discriminate].
  apply parse_until_eq in E1.
  destruct (str_eqb stop [cPIPE]).
  - destruct (parse_until true [[cRBRACE]] r1) as [[[esc stop2] r2]|] eqn:E2; [|discriminate].
    apply parse_until_eq in E2. intros [= <-]. apply one_event; [discriminate|].
    cbn [advance c_rest]. rewrite <- E0, <- E1, <- E2. app_norm.
  - intros [= <-]. apply one_event; [discriminate|]. cbn [advance c_rest]. rewrite <- E0, <- E1. app_norm.
Qed.

Lemma m_control_line_ok st st' : m_control_line st = Continue st' -> consumed_by st st'.
Proof.
  unfold m_control_line. destruct (negb (at_bol (cur st))); [discriminate|].
  destruct (scan_control_line (c_rest (cur st))) as [[[[[op lead] text] nl] rest]|] eqn:E; [|discriminate].
  destruct (scan_control_line_eq _ _ _ _ _ _ E) as [Es Hl].
  assert (Hsrc : lead ++ text ++ nl <> []) by (destruct lead; [congruence|discriminate]).
  assert (Hrest : c_rest (cur st) = (lead ++ text ++ nl) ++ rest) by (rewrite <- Es; app_norm).
  assert (Hgen : forall k tg ct, consumed_by st
     {| cur := advance (cur st) (lead ++ text ++ nl) rest; tags := tg; ctls := ct;
        evs := mk_event (cur st) k (lead ++ text ++ nl) :: evs st |}).
  { intros k tg ct. exists (lead ++ text ++ nl). split; [exact Hsrc|]. split; [exact Hrest|].
    unfold srcs. cbn [evs]. apply srcs_cons. }
  destruct op.
  - destruct (ctl_keyword text) as [[isend kw]|]; [|discriminate].
    destruct isend.
    + destruct (ctls st) as [|[[top l] p] rc]; [discriminate|]. destruct (str_eqb top kw); [|discriminate].
      intros [= <-]. apply Hgen.
    + destruct (is_primary kw); [intros [= <-]; apply Hgen|].
      destruct (ctls st) as [|[[top l] p] rc]; [intros [= <-]; apply Hgen|].
      destruct (is_ternary top kw); [intros [= <-]; apply Hgen|discriminate].
  - intros [= <-]. apply Hgen.
Qed.

Lemma m_comment_ok st st' : m_comment st = Continue st' -> consumed_by st st'.
Proof.
  unfold m_comment. destruct (scan_doc (c_rest (cur st))) as [[[body src] rest]|] eqn:E; [|discriminate].
  destruct (scan_doc_eq _ _ _ _ E) as [Es Hne]. intros [= <-]. apply one_event; [exact Hne|].
  cbn [advance c_rest]. symmetry. exact Es.
Qed.

Lemma do_tag_end_ok st st' : do_tag_end st = Continue st' -> consumed_by st st'.
Proof.
  unfold do_tag_end. destruct (scan_tag_end (c_rest (cur st))) as [[[name src] rest]|] eqn:E; [|discriminate].
  destruct (scan_tag_end_eq _ _ _ _ E) as [Es Hne].
  destruct (tags st) as [|top more]; [discriminate|]. destruct (str_eqb top name); [|discriminate].
  intros [= <-]. exists src. split; [exact Hne|]. split; [cbn [cur advance c_rest]; symmetry; exact Es|].
  unfold srcs. cbn [evs]. apply srcs_cons.
Qed.

Lemma consumed_trans a b c : consumed_by a b -> consumed_by b c -> consumed_by a c.
Proof.
  intros [c1 [N1 [R1 S1]]] [c2 [N2 [R2 S2]]]. exists (c1 ++ c2). split; [destruct c1; [congruence|discriminate]|].
  split; [rewrite R1, R2; app_norm|rewrite S2, S1; app_norm].
Qed.

Lemma m_tag_start_ok st st' : m_tag_start st = Continue st' -> consumed_by st st'.
Proof.
  unfold m_tag_start. destruct (scan_tag_start (c_rest (cur st))) as [[[[[kw attrs] sc] src] rest]|] eqn:E; [|discriminate].
  destruct (scan_tag_start_eq _ _ _ _ _ _ E) as [Es Hne].
  set (c1 := advance (cur st) src rest). set (ev := mk_event (cur st) (KTag kw attrs sc) src).
  assert (H1 : forall tg, consumed_by st {| cur := c1; tags := tg; ctls := ctls st; evs := ev :: evs st |}).
  { intros tg. exists src. split; [exact Hne|]. split; [cbn [cur c1 advance c_rest]; symmetry; exact Es|].
    unfold srcs. cbn [evs]. apply srcs_cons. }
  destruct sc; [intros [= <-]; apply (H1 (tags st))|].
  destruct (str_eqb kw (s2l "text")); [|intros [= <-]; apply H1].
  destruct (find_lit (s2l "</%text>") rest) as [[body r2]|] eqn:Ef; [|discriminate].
  apply find_lit_eq in Ef.
  set (st1 := {| cur := c1; tags := kw :: tags st; ctls := ctls st; evs := ev :: evs st |}).
  destruct body as [|b0 body'].
  - destruct (do_tag_end st1) as [st2|st2 o l p|] eqn:Ed.
    + intros [= <-]. eapply consumed_trans; [apply (H1 (kw :: tags st))|apply do_tag_end_ok; exact Ed].
    + discriminate.
    + intros [= <-]. apply H1.
  - set (body := b0 :: body') in *.
    set (st2 := push_ev st1 (mk_event c1 (KText body) body) (advance c1 body r2)).
    assert (H2 : consumed_by st1 st2).
    { unfold st2. apply (one_event st1 (advance c1 body r2) (KText body) body); [discriminate|].
      cbn [st1 cur c1 advance c_rest]. symmetry. exact Ef. }
    destruct (do_tag_end st2) as [st3|st3 o l p|] eqn:Ed.
    + intros [= <-]. eapply consumed_trans; [apply (H1 (kw :: tags st))|].
      eapply consumed_trans; [exact H2|apply do_tag_end_ok; exact Ed].
    + discriminate.
    + intros [= <-]. eapply consumed_trans; [apply (H1 (kw :: tags st))|exact H2].
Qed.

Lemma m_python_block_ok st st' : m_python_block st = Continue st' -> consumed_by st st'.
Proof.
  unfold m_python_block. destruct (strip_prefix [cLT; cPCT] (c_rest (cur st))) as [r0|] eqn:E0; [|discriminate].
  apply strip_prefix_eq in E0.
  set (trip := match r0 with
               | x :: r => if x =? cEXCL then (true, [cLT; cPCT; cEXCL], r) else (false, [cLT; cPCT], r0)
               | [] => (false, [cLT; cPCT], r0) end).
  assert (Ht : snd (fst trip) ++ snd trip = c_rest (cur st) /\ snd (fst trip) <> []).
  { unfold trip. destruct r0 as [|x r]; [split; [exact E0|discriminate]|].
    destruct (N.eqb_spec x cEXCL) as [->|Hx]; cbn [fst snd]; (split; [|discriminate]); rewrite <- E0; reflexivity. }
  destruct trip as [[ismod opening] r1]. cbn [fst snd] in Ht. destruct Ht as [Ht Hne].
  destruct (parse_until false [[cPCT; cGT]] r1) as [[[text stop] r2]|] eqn:E1; [|discriminate].
  apply parse_until_eq in E1. intros [= <-]. apply one_event.
  - destruct opening; [congruence|discriminate].
  - cbn [advance c_rest]. rewrite <- Ht, <- E1. app_norm.
Qed.

Lemma m_percent_ok st st' : m_percent st = Continue st' -> consumed_by st st'.
Proof.
  unfold m_percent. destruct (negb (at_bol (cur st))); [discriminate|].
  destruct (scan_percent (c_rest (cur st))) as [[[[ws ps] src] rest]|] eqn:E; [|discriminate].
  destruct (scan_percent_eq _ _ _ _ _ E) as [Es Hne]. intros [= <-]. apply one_event; [exact Hne|].
  cbn [advance c_rest]. symmetry. exact Es.
Qed.

Lemma m_text_ok st st' : m_text st = Continue st' -> consumed_by st st'.
Proof.
  unfold m_text. destruct (scan_text (c_prev (cur st)) (c_rest (cur st))) as [[t d] rest] eqn:E.
  apply scan_text_eq in E. destruct t as [|t0 t']; destruct d as [|d0 d'].
  - destruct rest as [|x r]; [discriminate|]. intros [= <-]. apply one_event; [discriminate|].
    cbn [advance c_rest]. rewrite <- E. reflexivity.
  - intros [= <-]. apply one_event; [discriminate|]. cbn [advance c_rest]. rewrite <- E. reflexivity.
  - intros [= <-]. apply one_event; [discriminate|]. cbn [advance c_rest]. rewrite <- E. app_norm.
  - intros [= <-].
    set (t := t0 :: t') in *. set (d := d0 :: d') in *.
    set (c1 := advance (cur st) t (d ++ rest)).
    eapply consumed_trans.
    + apply (one_event st c1 (KText t) t); [discriminate|]. cbn [c1 advance c_rest]. rewrite <- E. reflexivity.
    + apply (one_event (push_ev st (mk_event (cur st) (KText t) t) c1) (advance c1 d rest) KDropNL d); [discriminate|].
      reflexivity.
Qed.

Lemma run_matcher_ok m st st' : run_matcher m st = Continue st' -> consumed_by st st'.
Proof.
  destruct m; cbn [run_matcher]; [apply m_comment_ok|apply m_control_line_ok|apply m_expression_ok|apply m_percent_ok
    |apply m_python_block_ok|apply do_tag_end_ok|apply m_tag_start_ok|apply m_text_ok].
Qed.

Lemma cascade_ok ms st st' : cascade ms st = Continue st' -> consumed_by st st'.
Proof.
  induction ms as [|m r IH]; cbn [cascade]; [discriminate|].
  destruct (run_matcher m st) as [s1|s1 o l p|] eqn:E; [intros [= <-]; apply (run_matcher_ok m); exact E|discriminate|exact IH].
Qed.

(* ---- tiling ------------------------------------------------------------------------------------- *)
Definition LInv (s : str) (st : lstate) : Prop := srcs st ++ c_rest (cur st) = s.

Lemma linv_step s st st' : LInv s st -> consumed_by st st' -> LInv s st'.
Proof.
  unfold LInv. intros H [cons [_ [R S]]]. rewrite S, <- app_assoc, <- R. exact H.
Qed.

Lemma lex_loop_tiles s fuel : forall st es, LInv s st -> lex_loop fuel st = (es, LexOk) -> flat_map ev_src es = s.
Proof.
  induction fuel as [|f IH]; intros st es Hinv; cbn [lex_loop]; [discriminate|].
  destruct (c_rest (cur st)) as [|x r] eqn:Er.
  - unfold finish. destruct (tags st); [|discriminate]. destruct (ctls st) as [|[[k l] p] rc]; [|discriminate].
    intros [= <-]. unfold LInv, srcs in Hinv. rewrite Er, app_nil_r in Hinv. exact Hinv.
  - destruct (cascade matcher_order st) as [st'|st' o l p|] eqn:Ec.
    + apply IH. apply (linv_step s st st' Hinv). apply (cascade_ok _ _ _ Ec).
    + discriminate.
    + discriminate.
Qed.

Lemma linv_start s : LInv s (lex_start s).
Proof.
  unfold lex_start, LInv, srcs. destruct (scan_coding s) as [[src rest]|] eqn:E.
  - cbn [evs rev app flat_map cur advance c_rest mk_event ev_src]. rewrite app_nil_r. apply scan_coding_eq. exact E.
  - reflexivity.
Qed.

(* the slices of the events of a successful lex are exactly the source, in order *)
Theorem lex_tiles s es : lex s = (es, LexOk) -> flat_map ev_src es = s.
Proof. unfold lex. apply lex_loop_tiles. apply linv_start. Qed.

(* ---- what text events emit ------------------------------------------------------------------------ *)
Lemma span_all p s a b : span p s = (a, b) -> forallb p a = true.
Proof.
  revert a b. induction s as [|c r IH]; intros a b; cbn [span]; [intros [= <- <-]; reflexivity|].
  destruct (p c) eqn:Hc; [|intros [= <- <-]; reflexivity].
  destruct (span p r) as [a' b'] eqn:E. intros [= <- <-]. cbn [forallb]. rewrite Hc, (IH a' b' eq_refl). reflexivity.
Qed.

Lemma space_not_pct : is_space cPCT = false.
Proof. vm_compute. reflexivity. Qed.

Lemma remove_first_pct_ws ws r : forallb is_space ws = true ->
  remove_first_pct (ws ++ cPCT :: r) = ws ++ r.
Proof.
  unfold remove_first_pct. intros H.
  assert (E : span (fun x => negb (x =? cPCT)) (ws ++ cPCT :: r) = (ws, cPCT :: r)).
  { induction ws as [|w ws' IH]; cbn [app span].
    - rewrite N.eqb_refl. reflexivity.
    - cbn [forallb] in H. apply andb_true_iff in H as [Hw Hr].
      assert (Hne : (w =? cPCT) = false).
      { destruct (N.eqb_spec w cPCT) as [->|]; [rewrite space_not_pct in Hw; discriminate|reflexivity]. }
      rewrite Hne. cbn [negb]. rewrite (IH Hr). reflexivity. }
  rewrite E. reflexivity.
Qed.

Definition evs_ok (st : lstate) : Prop := forallb emit_ok (evs st) = true.

Lemma emit_ok_same c k src : (match k with KText t => t = src | _ => True end) -> emit_ok (mk_event c k src) = true.
Proof.
  unfold emit_ok, mk_event. cbn [ev_kind ev_src]. destruct k; try reflexivity. intros ->. rewrite str_eqb_refl. reflexivity.
Qed.

Lemma evs_ok_push st e c' : evs_ok st -> emit_ok e = true -> evs_ok (push_ev st e c').
Proof. unfold evs_ok, push_ev. cbn [evs forallb]. intros -> ->. reflexivity. Qed.

Ltac ok_push := apply evs_ok_push; [assumption|apply emit_ok_same; try exact I; try reflexivity].

Lemma do_tag_end_evs st st' : evs_ok st -> do_tag_end st = Continue st' -> evs_ok st'.
Proof.
  intros H. unfold do_tag_end. destruct (scan_tag_end _) as [[[name src] rest]|]; [|discriminate].
  destruct (tags st) as [|top more]; [discriminate|]. destruct (str_eqb top name); [|discriminate].
  intros [= <-]. unfold evs_ok in *. cbn [evs forallb]. rewrite H. reflexivity.
Qed.

Lemma run_matcher_evs m st st' : evs_ok st -> run_matcher m st = Continue st' -> evs_ok st'.
Proof.
  intros H. destruct m; cbn [run_matcher].
  - unfold m_comment. destruct (scan_doc _) as [[[body src] rest]|]; [|discriminate]. intros [= <-]. ok_push.
  - unfold m_control_line. destruct (negb _); [discriminate|].
    destruct (scan_control_line _) as [[[[[op lead] text] nl] rest]|]; [|discriminate].
    destruct op.
    + destruct (ctl_keyword text) as [[isend kw]|]; [|discriminate]. destruct isend.
      * destruct (ctls st) as [|[[top l] p] rc]; [discriminate|]. destruct (str_eqb top kw); [|discriminate].
        intros [= <-]. unfold evs_ok in *. cbn [evs forallb]. rewrite H. reflexivity.
      * destruct (is_primary kw); [intros [= <-]; unfold evs_ok in *; cbn [evs forallb]; rewrite H; reflexivity|].
        destruct (ctls st) as [|[[top l] p] rc]; [intros [= <-]; ok_push|].
        destruct (is_ternary top kw); [intros [= <-]; ok_push|discriminate].
    + intros [= <-]. ok_push.
  - unfold m_expression. destruct (strip_prefix _ _); [|discriminate].
    destruct (parse_until true _ _) as [[[text stop] r1]|]; [|discriminate].
    destruct (str_eqb stop [cPIPE]).
    + destruct (parse_until true _ r1) as [[[esc stop2] r2]|]; [|discriminate]. intros [= <-]. ok_push.
    + intros [= <-]. ok_push.
  - unfold m_percent. destruct (negb _); [discriminate|].
    destruct (scan_percent (c_rest (cur st))) as [[[[ws ps] src] rest]|] eqn:E; [|discriminate].
    intros [= <-]. apply evs_ok_push; [assumption|].
    unfold scan_percent in E. destruct (span is_space (c_rest (cur st))) as [w r] eqn:Es.
    destruct (strip_prefix [cPCT; cPCT] r) as [r2|]; [|discriminate].
    destruct (span (fun x => x =? cPCT) r2) as [p rest'] eqn:Ep. injection E as <- <- <- <-.
    unfold emit_ok, mk_event. cbn [ev_kind ev_src]. apply orb_true_iff. right. apply str_eqb_eq.
    change (w ++ [cPCT; cPCT] ++ p) with (w ++ cPCT :: ([cPCT] ++ p)).
    rewrite (remove_first_pct_ws w _ (span_all _ _ _ _ Es)). reflexivity.
  - unfold m_python_block. destruct (strip_prefix _ _) as [r0|]; [|discriminate].
    destruct (match r0 with x :: r => if x =? cEXCL then (true, [cLT; cPCT; cEXCL], r) else (false, [cLT; cPCT], r0) | [] => (false, [cLT; cPCT], r0) end) as [[ismod opening] r1].
    destruct (parse_until false _ r1) as [[[text stop] r2]|]; [|discriminate]. intros [= <-]. ok_push.
  - apply do_tag_end_evs. exact H.
  - unfold m_tag_start. destruct (scan_tag_start _) as [[[[[kw attrs] sc] src] rest]|]; [|discriminate].
    set (c1 := advance (cur st) src rest). set (ev := mk_event (cur st) (KTag kw attrs sc) src).
    destruct sc; [intros [= <-]; ok_push|].
    assert (H1 : forall tg, evs_ok {| cur := c1; tags := tg; ctls := ctls st; evs := ev :: evs st |}).
    { intros tg. unfold evs_ok in *. cbn [evs forallb]. rewrite H. reflexivity. }
    destruct (str_eqb kw (s2l "text")); [|intros [= <-]; apply H1].
    destruct (find_lit _ rest) as [[body r2]|]; [|discriminate].
    destruct body as [|b0 body'].
    + destruct (do_tag_end _) as [st2|st2 o l p|] eqn:Ed; [|discriminate|].
      * intros [= <-]. apply (do_tag_end_evs _ _ (H1 _) Ed).
      * intros [= <-]. apply H1.
    + set (body := b0 :: body') in *.
      assert (H2 : evs_ok (push_ev {| cur := c1; tags := kw :: tags st; ctls := ctls st; evs := ev :: evs st |}
                                   (mk_event c1 (KText body) body) (advance c1 body r2))).
      { apply evs_ok_push; [apply H1|apply emit_ok_same; reflexivity]. }
      destruct (do_tag_end _) as [st3|st3 o l p|] eqn:Ed; [|discriminate|].
      * intros [= <-]. apply (do_tag_end_evs _ _ H2 Ed).
      * intros [= <-]. exact H2.
  - unfold m_text. destruct (scan_text _ _) as [[t d] rest]. destruct t as [|t0 t']; destruct d as [|d0 d'].
    + destruct rest as [|x r]; [discriminate|]. intros [= <-]. ok_push.
    + intros [= <-]. ok_push.
    + intros [= <-]. ok_push.
    + intros [= <-]. apply evs_ok_push; [apply evs_ok_push; [assumption|apply emit_ok_same; reflexivity]|apply emit_ok_same; exact I].
Qed.

Lemma cascade_evs ms st st' : evs_ok st -> cascade ms st = Continue st' -> evs_ok st'.
Proof.
  intros H. induction ms as [|m r IH]; cbn [cascade]; [discriminate|].
  destruct (run_matcher m st) as [s1|s1 o l p|] eqn:E; [intros [= <-]; apply (run_matcher_evs m st); assumption|discriminate|exact IH].
Qed.

(* every text node of a successful lex emits exactly its own source slice; the only exception is
   the line-leading "%%", which emits its slice with one "%" removed *)
Theorem lex_text_emits_slice s es : lex s = (es, LexOk) -> forallb emit_ok es = true.
Proof.
  unfold lex. assert (H0 : evs_ok (lex_start s)).
  { unfold lex_start, evs_ok. destruct (scan_coding s) as [[src rest]|]; reflexivity. }
  revert H0. generalize (lex_start s). generalize (S (S (length s))).
  induction n as [|f IH]; intros st Hok; cbn [lex_loop]; [discriminate|].
  destruct (c_rest (cur st)).
  - unfold finish. destruct (tags st); [|discriminate]. destruct (ctls st) as [|[[k l] p] rc]; [|discriminate].
    intros [= <-]. rewrite forallb_forall. intros e He. apply in_rev in He.
    unfold evs_ok in Hok. rewrite forallb_forall in Hok. apply Hok. exact He.
  - destruct (cascade matcher_order st) as [st'|st' o ln ps|] eqn:Ec; [|discriminate|discriminate].
    apply IH. apply (cascade_evs _ _ _ Hok Ec).
Qed.

(* ---- termination: fuel never runs out ------------------------------------------------------------- *)
Lemma app_shorter {A} (c r' : list A) r : c <> [] -> r = c ++ r' -> (length r' < length r)%nat.
Proof. intros Hc ->. rewrite app_length. destruct c; [congruence|simpl; lia]. Qed.

Lemma put_loop_fuel f1 nest stops : (forall t, In t stops -> t <> []) ->
  forall f2 acc s lv, (length s < f1)%nat -> (length s < f2)%nat ->
  put_loop f1 nest stops acc s lv = put_loop f2 nest stops acc s lv.
Proof.
  intros Hst. induction f1 as [|f IH]; intros f2 acc s lv H1 H2; [lia|]. destruct f2 as [|g]; [lia|].
  cbn [put_loop].
  destruct (scan_hash_comment s) as [[c r]|] eqn:E1.
  { destruct (scan_hash_comment_eq _ _ _ E1) as [Es Hc]. pose proof (app_shorter c r s Hc (eq_sym Es)). apply IH; lia. }
  destruct (scan_string s) as [[c r]|] eqn:E2.
  { destruct (scan_string_eq _ _ _ E2) as [Es Hc]. pose proof (app_shorter c r s Hc (eq_sym Es)). apply IH; lia. }
  destruct (first_stop stops s) as [[t r]|] eqn:E3.
  { destruct (first_stop_eq _ _ _ _ E3) as [Es Hin]. pose proof (app_shorter t r s (Hst t Hin) (eq_sym Es)).
    destruct (nest && nested lv); [apply IH; lia|reflexivity]. }
  destruct (scan_run stops s) as [[run r]|] eqn:E4; [|reflexivity].
  apply scan_run_eq in E4. destruct run as [|x run'].
  - destruct s as [|c s']; [reflexivity|]. apply IH; cbn [length] in *; lia.
  - assert (Hlen : (length r < length s)%nat) by (apply (app_shorter (x :: run') r s); [discriminate|auto]).
    apply IH; lia.
Qed.

(* parse_until_text's answer does not depend on the fuel: "no match" is never an artefact *)
Theorem parse_until_fuel_independent nest stops s extra :
  (forall t, In t stops -> t <> []) ->
  put_loop (S (length s) + extra) nest stops [] s lv0 = parse_until nest stops s.
Proof. intros H. unfold parse_until. apply put_loop_fuel; [exact H|lia|lia]. Qed.

Lemma run_matcher_stop_kind m st st' e l p : run_matcher m st = Stop st' e l p -> e <> EOutOfFuel.
Proof.
  destruct m; cbn [run_matcher].
  - unfold m_comment. destruct (scan_doc _) as [[[? ?] ?]|]; discriminate.
  - unfold m_control_line. destruct (negb _); [discriminate|].
    destruct (scan_control_line _) as [[[[[op lead] text] nl] rest]|]; [|discriminate]. destruct op; [|discriminate].
    destruct (ctl_keyword text) as [[isend kw]|]; [|intros [= <- <- <- <-]; discriminate]. destruct isend.
    + destruct (ctls st) as [|[[top l0] p0] rc]; [intros [= <- <- <- <-]; discriminate|].
      destruct (str_eqb top kw); [discriminate|intros [= <- <- <- <-]; discriminate].
    + destruct (is_primary kw); [discriminate|]. destruct (ctls st) as [|[[top l0] p0] rc]; [discriminate|].
      destruct (is_ternary top kw); [discriminate|intros [= <- <- <- <-]; discriminate].
  - unfold m_expression. destruct (strip_prefix _ _); [|discriminate].
    destruct (parse_until true _ _) as [[[text stop] r1]|]; [|intros [= <- <- <- <-]; discriminate].
    destruct (str_eqb stop [cPIPE]); [|discriminate].
    destruct (parse_until true _ r1) as [[[esc stop2] r2]|]; [discriminate|intros [= <- <- <- <-]; discriminate].
  - unfold m_percent. destruct (negb _); [discriminate|]. destruct (scan_percent _) as [[[[? ?] ?] ?]|]; discriminate.
  - unfold m_python_block. destruct (strip_prefix _ _) as [r0|]; [|discriminate].
    destruct (match r0 with x :: r => if x =? cEXCL then (true, [cLT; cPCT; cEXCL], r) else (false, [cLT; cPCT], r0) | [] => (false, [cLT; cPCT], r0) end) as [[ismod opening] r1].
    destruct (parse_until false _ r1) as [[[text stop] r2]|]; [discriminate|intros [= <- <- <- <-]; discriminate].
  - unfold m_tag_end, do_tag_end. destruct (scan_tag_end _) as [[[name src] rest]|]; [|discriminate].
    destruct (tags st) as [|top more]; [intros [= <- <- <- <-]; discriminate|].
    destruct (str_eqb top name); [discriminate|intros [= <- <- <- <-]; discriminate].
  - unfold m_tag_start. destruct (scan_tag_start _) as [[[[[kw attrs] sc] src] rest]|]; [|discriminate].
    destruct sc; [discriminate|]. destruct (str_eqb kw (s2l "text")); [|discriminate].
    destruct (find_lit _ rest) as [[body r2]|]; [|intros [= <- <- <- <-]; discriminate].
    assert (D : forall stx sty ee ll pp, do_tag_end stx = Stop sty ee ll pp -> ee <> EOutOfFuel).
    { intros stx sty ee ll pp. unfold do_tag_end. destruct (scan_tag_end _) as [[[name src'] rest']|]; [|discriminate].
      destruct (tags stx) as [|top more]; [intros [= <- <- <- <-]; discriminate|].
      destruct (str_eqb top name); [discriminate|intros [= <- <- <- <-]; discriminate]. }
    destruct body as [|b0 body'].
    + destruct (do_tag_end _) as [st2|st2 o l0 p0|] eqn:Ed; [discriminate| |discriminate].
      intros [= <- <- <- <-]. apply (D _ _ _ _ _ Ed).
    + destruct (do_tag_end _) as [st2|st2 o l0 p0|] eqn:Ed; [discriminate| |discriminate].
      intros [= <- <- <- <-]. apply (D _ _ _ _ _ Ed).
  - unfold m_text. destruct (scan_text _ _) as [[t d] rest]. destruct t; destruct d; try discriminate.
    destruct rest; discriminate.
Qed.

Lemma cascade_stop_kind ms st st' e l p : cascade ms st = Stop st' e l p -> e <> EOutOfFuel.
Proof.
  induction ms as [|m r IH]; cbn [cascade]; [discriminate|].
  destruct (run_matcher m st) as [s1|s1 o l0 p0|] eqn:E; [discriminate| |exact IH].
  intros [= <- <- <- <-]. apply (run_matcher_stop_kind _ _ _ _ _ _ E).
Qed.

Lemma m_text_matches st : c_rest (cur st) <> [] -> m_text st <> NoMatch.
Proof.
  intros Hne. unfold m_text. destruct (scan_text _ _) as [[t d] rest] eqn:E. apply scan_text_eq in E.
  destruct t; destruct d; try discriminate. destruct rest; [|discriminate].
  cbn [app] in E. congruence.
Qed.

Lemma cascade_matches ms st : In MText ms -> c_rest (cur st) <> [] -> cascade ms st <> NoMatch.
Proof.
  intros Hin Hne. induction ms as [|m r IH]; [destruct Hin|]. cbn [cascade].
  destruct (run_matcher m st) as [s1|s1 o l p|] eqn:E; [discriminate|discriminate|].
  destruct Hin as [->|Hin]; [exfalso; cbn [run_matcher] in E; revert E; apply m_text_matches; exact Hne|apply IH; exact Hin].
Qed.

Lemma text_in_order : In MText matcher_order.
Proof. vm_compute. repeat (try (left; reflexivity); right). Qed.

Lemma lex_loop_total fuel : forall st l p, (length (c_rest (cur st)) < fuel)%nat ->
  snd (lex_loop fuel st) <> LexErr EOutOfFuel l p.
Proof.
  induction fuel as [|f IH]; intros st l p Hlen; [lia|]. cbn [lex_loop].
  destruct (c_rest (cur st)) as [|x r] eqn:Er.
  - unfold finish. destruct (tags st); [|cbn; discriminate]. destruct (ctls st) as [|[[k l0] p0] rc]; cbn; discriminate.
  - destruct (cascade matcher_order st) as [st'|st' e l0 p0|] eqn:Ec.
    + apply IH. destruct (cascade_ok _ _ _ Ec) as [cons [Hne [Hr _]]]. rewrite Er in Hr.
      pose proof (app_shorter cons (c_rest (cur st')) (x :: r) Hne Hr). cbn [length] in *. lia.
    + cbn [snd]. intros [= -> _ _]. revert Ec. intros Ec. apply (cascade_stop_kind _ _ _ _ _ _ Ec). reflexivity.
    + exfalso. revert Ec. apply cascade_matches; [apply text_in_order|rewrite Er; discriminate].
Qed.

(* lexing every string ends with a parse or a Mako error -- the fuel is always enough *)
Theorem lex_total s l p : snd (lex s) <> LexErr EOutOfFuel l p.
Proof.
  unfold lex. apply lex_loop_total.
  assert (H : (length (c_rest (cur (lex_start s))) <= length s)%nat).
  { unfold lex_start. destruct (scan_coding s) as [[src rest]|] eqn:E; [|cbn; lia].
    apply scan_coding_eq in E. cbn [cur advance c_rest]. rewrite <- E, app_length. lia. }
  lia.
Qed.

(* ---- positions: every event reports the line and column of the offset it begins at --------- *)
From MakoV Require Import Model.PyLine.

Lemma countN_app c a b : countN c (a ++ b) = countN c a + countN c b.
Proof. induction a as [|x r IH]; cbn [app countN]; [reflexivity|]. rewrite IH. lia. Qed.

Lemma last_lf_base_app a : forall off base b,
  last_lf_base off base (a ++ b) = last_lf_base (off + N.of_nat (length a)) (last_lf_base off base a) b.
Proof.
  induction a as [|x r IH]; intros off base b; cbn [app last_lf_base length].
  - rewrite N.add_0_r. reflexivity.
  - rewrite IH. f_equal. lia.
Qed.

Definition cursor_at (pre : str) (c : cursor) : Prop :=
  c_off c = N.of_nat (length pre) /\ c_line c = line_of_prefix pre /\ c_colbase c = colbase_of_prefix pre.

Lemma cursor_at_advance pre c slice rest : cursor_at pre c -> cursor_at (pre ++ slice) (advance c slice rest).
Proof.
  intros [Ho [Hl Hc]]. unfold cursor_at, advance. cbn [c_off c_line c_colbase]. repeat split.
  - rewrite Ho, app_length. lia.
  - rewrite Hl. unfold line_of_prefix. rewrite countN_app. lia.
  - rewrite Hc, Ho. unfold colbase_of_prefix. rewrite last_lf_base_app. cbn. reflexivity.
Qed.

(* each event, read in order, sits at the position of the text before it *)
Fixpoint positions_ok (pre : str) (es : list event) : Prop :=
  match es with
  | [] => True
  | e :: r => ev_line e = line_of_prefix pre /\ ev_pos e = col_of_prefix pre /\ positions_ok (pre ++ ev_src e) r
  end.

Lemma positions_ok_app pre es e :
  positions_ok pre es ->
  ev_line e = line_of_prefix (pre ++ flat_map ev_src es) ->
  ev_pos e = col_of_prefix (pre ++ flat_map ev_src es) ->
  positions_ok pre (es ++ [e]).
Proof.
  revert pre. induction es as [|x r IH]; intros pre H Hl Hp; cbn [app positions_ok flat_map] in *.
  - rewrite app_nil_r in Hl, Hp. auto.
  - destruct H as [A [B C]]. repeat split; auto. apply IH; [exact C| |]; rewrite <- app_assoc; assumption.
Qed.

Definition PInv (st : lstate) : Prop :=
  positions_ok [] (rev (evs st)) /\ cursor_at (srcs st) (cur st).

Lemma mk_event_pos pre c k src : cursor_at pre c ->
  ev_line (mk_event c k src) = line_of_prefix pre /\ ev_pos (mk_event c k src) = col_of_prefix pre.
Proof.
  intros [Ho [Hl Hc]]. unfold mk_event, cur_pos, col_of_prefix. cbn [ev_line ev_pos]. rewrite Ho, Hl, Hc. split; reflexivity.
Qed.

Lemma pinv_push st k src rest : PInv st ->
  PInv (push_ev st (mk_event (cur st) k src) (advance (cur st) src rest)).
Proof.
  intros [HP HC]. destruct (mk_event_pos _ _ k src HC) as [A B]. split.
  - unfold push_ev. cbn [evs rev]. apply positions_ok_app; cbn [app]; assumption.
  - rewrite srcs_push. cbn [push_ev cur mk_event ev_src]. apply cursor_at_advance. exact HC.
Qed.

Lemma pinv_push_raw st k src rest tg ct : PInv st ->
  PInv {| cur := advance (cur st) src rest; tags := tg; ctls := ct; evs := mk_event (cur st) k src :: evs st |}.
Proof.
  intros H. destruct (pinv_push st k src rest H) as [A B]. split; [exact A|exact B].
Qed.

Lemma do_tag_end_pinv st st' : PInv st -> do_tag_end st = Continue st' -> PInv st'.
Proof.
  intros H. unfold do_tag_end. destruct (scan_tag_end _) as [[[name src] rest]|]; [|discriminate].
  destruct (tags st) as [|top more]; [discriminate|]. destruct (str_eqb top name); [|discriminate].
  intros [= <-]. apply pinv_push_raw. exact H.
Qed.

Lemma run_matcher_pinv m st st' : PInv st -> run_matcher m st = Continue st' -> PInv st'.
Proof.
  intros H. destruct m; cbn [run_matcher].
  - unfold m_comment. destruct (scan_doc _) as [[[body src] rest]|]; [|discriminate]. intros [= <-]. apply pinv_push; exact H.
  - unfold m_control_line. destruct (negb _); [discriminate|].
    destruct (scan_control_line _) as [[[[[op lead] text] nl] rest]|]; [|discriminate].
    destruct op.
    + destruct (ctl_keyword text) as [[isend kw]|]; [|discriminate]. destruct isend.
      * destruct (ctls st) as [|[[top l] p] rc]; [discriminate|]. destruct (str_eqb top kw); [|discriminate].
        intros [= <-]. apply pinv_push_raw; exact H.
      * destruct (is_primary kw); [intros [= <-]; apply pinv_push_raw; exact H|].
        destruct (ctls st) as [|[[top l] p] rc]; [intros [= <-]; apply pinv_push; exact H|].
        destruct (is_ternary top kw); [intros [= <-]; apply pinv_push; exact H|discriminate].
    + intros [= <-]. apply pinv_push; exact H.
  - unfold m_expression. destruct (strip_prefix _ _); [|discriminate].
    destruct (parse_until true _ _) as [[[text stop] r1]|]; [|discriminate].
    destruct (str_eqb stop [cPIPE]).
    + destruct (parse_until true _ r1) as [[[esc stop2] r2]|]; [|discriminate]. intros [= <-]. apply pinv_push; exact H.
    + intros [= <-]. apply pinv_push; exact H.
  - unfold m_percent. destruct (negb _); [discriminate|].
    destruct (scan_percent _) as [[[[ws ps] src] rest]|]; [|discriminate]. intros [= <-]. apply pinv_push; exact H.
  - unfold m_python_block. destruct (strip_prefix _ _) as [r0|]; [|discriminate].
    destruct (match r0 with x :: r => if x =? cEXCL then (true, [cLT; cPCT; cEXCL], r) else (false, [cLT; cPCT], r0) | [] => (false, [cLT; cPCT], r0) end) as [[ismod opening] r1].
    destruct (parse_until false _ r1) as [[[text stop] r2]|]; [|discriminate]. intros [= <-]. apply pinv_push; exact H.
  - apply do_tag_end_pinv. exact H.
  - unfold m_tag_start. destruct (scan_tag_start _) as [[[[[kw attrs] sc] src] rest]|]; [|discriminate].
    destruct sc; [intros [= <-]; apply pinv_push; exact H|].
    pose proof (pinv_push_raw st (KTag kw attrs false) src rest (kw :: tags st) (ctls st) H) as H1.
    destruct (str_eqb kw (s2l "text")); [|intros [= <-]; exact H1].
    destruct (find_lit _ rest) as [[body r2]|]; [|discriminate].
    destruct body as [|b0 body'].
    + destruct (do_tag_end _) as [st2|st2 o l p|] eqn:Ed; [|discriminate|].
      * intros [= <-]. apply (do_tag_end_pinv _ _ H1 Ed).
      * intros [= <-]. exact H1.
    + match goal with |- context [do_tag_end ?S] => set (st2 := S) end.
      assert (H2 : PInv st2) by (unfold st2; apply (pinv_push _ _ _ _ H1)).
      destruct (do_tag_end st2) as [st3|st3 o l p|] eqn:Ed; [|discriminate|].
      * intros [= <-]. apply (do_tag_end_pinv _ _ H2 Ed).
      * intros [= <-]. exact H2.
  - unfold m_text. destruct (scan_text _ _) as [[t d] rest]. destruct t as [|t0 t']; destruct d as [|d0 d'].
    + destruct rest as [|x r]; [discriminate|]. intros [= <-]. apply pinv_push; exact H.
    + intros [= <-]. apply pinv_push; exact H.
    + intros [= <-]. apply pinv_push; exact H.
    + intros [= <-].
      match goal with |- PInv (push_ev ?S1 _ _) => pose proof (pinv_push st (KText (t0 :: t')) (t0 :: t') ((d0 :: d') ++ rest) H) as H1 end.
      apply (pinv_push _ KDropNL (d0 :: d') rest H1).
Qed.

Lemma cascade_pinv ms st st' : PInv st -> cascade ms st = Continue st' -> PInv st'.
Proof.
  intros H. induction ms as [|m r IH]; cbn [cascade]; [discriminate|].
  destruct (run_matcher m st) as [s1|s1 o l p|] eqn:E; [intros [= <-]; apply (run_matcher_pinv m st); assumption|discriminate|exact IH].
Qed.

Lemma pinv_start s : PInv (lex_start s).
Proof.
  unfold lex_start. destruct (scan_coding s) as [[src rest]|].
  - apply (pinv_push_raw {| cur := {| c_rest := s; c_off := 0; c_line := 1; c_colbase := 0; c_prev := None |}; tags := []; ctls := []; evs := [] |} KCoding src rest [] []).
    split; [exact I|]. repeat split.
  - split; [exact I|]. repeat split.
Qed.

(* every node of a successful lex carries the line and column of the offset it begins at *)
Theorem node_position s es : lex s = (es, LexOk) -> positions_ok [] es.
Proof.
  unfold lex. pose proof (pinv_start s) as H0. revert H0. generalize (lex_start s). generalize (S (S (length s))).
  induction n as [|f IH]; intros st HP; cbn [lex_loop]; [discriminate|].
  destruct (c_rest (cur st)).
  - unfold finish. destruct (tags st); [|discriminate]. destruct (ctls st) as [|[[k l] p] rc]; [|discriminate].
    intros [= <-]. apply HP.
  - destruct (cascade matcher_order st) as [st'|st' o ln ps|] eqn:Ec; [|discriminate|discriminate].
    apply IH. apply (cascade_pinv _ _ _ HP Ec).
Qed.
