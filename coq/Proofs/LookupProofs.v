(* Proofs/LookupProofs.v -- lemmas behind Properties/C14.v *)
From Coq Require Import Lia Permutation.
From MakoV Require Import Lib.Str Gen.Util Model.Lookup.
Open Scope N_scope.
Arguments N.add : simpl never.
Arguments N.mul : simpl never.
Arguments N.ltb : simpl never.
Arguments N.leb : simpl never.
Arguments N.of_nat : simpl never.

(* ---- association list facts ---------------------------------------------------- *)

Lemma coll_get_del_same u l : coll_get u (coll_del u l) = None.
Proof.
  induction l as [|[u' e] r IH]; [reflexivity|]. cbn [coll_del].
  destruct (N.eqb_spec u u') as [->|Hne]; [exact IH|].
  cbn [coll_get]. apply N.eqb_neq in Hne. rewrite Hne. exact IH.
Qed.

Lemma coll_del_length u l : (length (coll_del u l) <= length l)%nat.
Proof.
  induction l as [|[u' e] r IH]; [simpl; lia|]. cbn [coll_del].
  destruct (u =? u'); cbn [length]; lia.
Qed.

Lemma coll_update_length u f l : length (coll_update u f l) = length l.
Proof.
  induction l as [|[u' e] r IH]; [reflexivity|]. cbn [coll_update].
  destruct (u =? u'); cbn [length]; [reflexivity|rewrite IH; reflexivity].
Qed.

Lemma coll_get_update_same u f l e : coll_get u l = Some e -> coll_get u (coll_update u f l) = Some (f e).
Proof.
  induction l as [|[u' e'] r IH]; [discriminate|]. cbn [coll_get coll_update].
  destruct (u =? u') eqn:E.
  - intros [= ->]. cbn [coll_get]. rewrite E. reflexivity.
  - intros H. cbn [coll_get]. rewrite E. apply IH. exact H.
Qed.

Lemma coll_get_app_new u l e : coll_get u l = None -> coll_get u (l ++ [(u, e)]) = Some e.
Proof.
  induction l as [|[u' e'] r IH]; cbn [app coll_get].
  - rewrite N.eqb_refl. reflexivity.
  - destruct (u =? u'); [discriminate|exact IH].
Qed.

(* ---- the LRU bound --------------------------------------------------------------- *)

Lemma filter_length_perm {A} (f : A -> bool) l l' : Permutation l l' -> length (filter f l) = length (filter f l').
Proof.
  induction 1 as [|x l l' _ IH|x y l|l l' l'' _ IH1 _ IH2]; cbn [filter].
  - reflexivity.
  - destruct (f x); cbn [length]; rewrite IH; reflexivity.
  - destruct (f x), (f y); reflexivity.
  - rewrite IH1. exact IH2.
Qed.

Lemma insert_desc_perm x l : Permutation (insert_desc x l) (x :: l).
Proof.
  induction l as [|y r IH]; cbn [insert_desc]; [apply Permutation_refl|].
  destruct (e_stamp (snd y) <? e_stamp (snd x)); [apply Permutation_refl|].
  eapply Permutation_trans; [apply perm_skip; exact IH|apply perm_swap].
Qed.

Lemma sort_desc_perm l : Permutation (sort_desc l) l.
Proof.
  induction l as [|x r IH]; [apply Permutation_refl|]. cbn [sort_desc fold_right].
  eapply Permutation_trans; [apply insert_desc_perm|]. apply perm_skip. exact IH.
Qed.

Lemma filter_all_out {A} (f : A -> bool) l : (forall x, In x l -> f x = false) -> filter f l = [].
Proof.
  induction l as [|x r IH]; intros H; [reflexivity|]. cbn [filter].
  rewrite (H x (or_introl eq_refl)). apply IH. intros y Hy. apply H. right; exact Hy.
Qed.

Lemma filter_length_le {A} (f : A -> bool) l : (length (filter f l) <= length l)%nat.
Proof. induction l as [|x r IH]; cbn [filter length]; [lia|]. destruct (f x); cbn [length]; lia. Qed.

Lemma evict_length cp (l : list (N * entry)) :
  let doomed := map fst (skipn (N.to_nat cp) (sort_desc l)) in
  (length (filter (fun ue => negb (memN (fst ue) doomed)) l) <= N.to_nat cp)%nat.
Proof.
  intros doomed. set (f := fun ue : N * entry => negb (memN (fst ue) doomed)).
  rewrite (filter_length_perm f l (sort_desc l)) by (apply Permutation_sym, sort_desc_perm).
  rewrite <- (firstn_skipn (N.to_nat cp) (sort_desc l)) at 1.
  rewrite filter_app, app_length.
  rewrite (filter_all_out f (skipn (N.to_nat cp) (sort_desc l))).
  - cbn [length]. pose proof (filter_length_le f (firstn (N.to_nat cp) (sort_desc l))).
    pose proof (firstn_le_length (N.to_nat cp) (sort_desc l)). lia.
  - intros x Hx. unfold f. apply negb_false_iff. apply memN_In. unfold doomed.
    apply in_map. exact Hx.
Qed.

Definition ok_len (cp : N) (s : st) : Prop := over_threshold cp (length (coll s)) = false.

Lemma over_threshold_mono cp n m : (m <= n)%nat -> over_threshold cp n = false -> over_threshold cp m = false.
Proof. unfold over_threshold, lru_threshold_den, lru_threshold_num. intros H. rewrite !N.ltb_ge. lia. Qed.

Lemma over_threshold_small cp n : (n <= N.to_nat cp)%nat -> over_threshold cp n = false.
Proof. unfold over_threshold, lru_threshold_den, lru_threshold_num. intros H. rewrite N.ltb_ge. lia. Qed.

Lemma manage_size_ok cp l : over_threshold cp (length (manage_size cp l)) = false.
Proof.
  unfold manage_size. destruct (over_threshold cp (length l)) eqn:E; [|exact E].
  apply over_threshold_small. apply evict_length.
Qed.

Section Bound.
  Variable c : cfg.
  Variable cp : N.
  Hypothesis Hcap : cap c = Some cp.

  Lemma ok_read s u : ok_len cp s -> ok_len cp (snd (coll_read c s u)).
  Proof.
    unfold coll_read, ok_len. intros H. destruct (coll_get u (coll s)); [|exact H].
    rewrite Hcap. cbn [snd coll]. rewrite coll_update_length. exact H.
  Qed.

  Lemma ok_pop s u : ok_len cp s -> ok_len cp (coll_pop s u).
  Proof.
    unfold ok_len, coll_pop. cbn [coll]. intros H.
    eapply over_threshold_mono; [apply coll_del_length|exact H].
  Qed.

  Lemma ok_store s u e : ok_len cp (coll_store c s u e).
  Proof. unfold ok_len, coll_store. rewrite Hcap. cbn [coll]. apply manage_size_ok. Qed.

  Lemma construct_coll s k : coll (snd (construct_from_file s k)) = coll s.
  Proof.
    unfold construct_from_file. destruct (file_get k (files s)) as [f|]; [|reflexivity].
    destruct (negb (freadable f)); [reflexivity|]. destruct (negb (fcompiles f)); reflexivity.
  Qed.

  Lemma ok_load s k u : ok_len cp s -> ok_len cp (snd (load c s k u)).
  Proof.
    intros H. unfold load. pose proof (ok_read s u H) as Hr.
    destruct (coll_read c s u) as [[e|] s1]; cbn [snd] in *; [exact Hr|].
    pose proof (construct_coll s1 k) as Hc.
    destruct (construct_from_file s1 k) as [[e| |] s2]; cbn [snd] in *.
    - apply ok_store.
    - apply ok_pop. unfold ok_len in *. rewrite Hc. exact Hr.
    - apply ok_pop. unfold ok_len in *. rewrite Hc. exact Hr.
  Qed.

  Lemma ok_check s u e : ok_len cp s -> ok_len cp (snd (check c s u e)).
  Proof.
    intros H. unfold check. destruct (e_src e) as [k|]; [|exact H].
    destruct (file_get k (files s)) as [f|]; [|apply ok_pop; exact H].
    destruct (fmtime f * 1000 <=? e_ctime e); [exact H|].
    pose proof (ok_load (coll_pop s u) k u (ok_pop s u H)) as Hl.
    destruct (load c (coll_pop s u) k u) as [[] s']; exact Hl.
  Qed.

  Lemma ok_get s u : ok_len cp s -> ok_len cp (snd (get_template c s u)).
  Proof.
    intros H. unfold get_template. pose proof (ok_read s u H) as Hr.
    destruct (coll_read c s u) as [[e|] s1]; cbn [snd] in *.
    - destruct (checks c); [apply ok_check; exact Hr|exact Hr].
    - destruct (first_dir (files s1) u 0 (N.to_nat (ndirs c))); [apply ok_load; exact Hr|exact Hr].
  Qed.

  Lemma ok_step s o : ok_len cp s -> ok_len cp (snd (step c s o)).
  Proof.
    intros H. destruct o; cbn [step]; try exact H.
    - destruct (file_get (d, n) (files s)); exact H.
    - destruct (file_get (d, n) (files s)); exact H.
    - apply ok_get. exact H.
    - pose proof (ok_get s u H) as Hg. destruct (get_template c s u) as [[] s']; exact Hg.
    - apply ok_store.
    - destruct (coll_get from (coll s)); [apply ok_store|exact H].
  Qed.

  Lemma ok_run ops : forall s, ok_len cp s -> ok_len cp (snd (run c s ops)).
  Proof.
    induction ops as [|o r IH]; intros s H; [exact H|]. cbn [run].
    pose proof (ok_step s o H) as Hs. destruct (step c s o) as [x s1]. cbn [snd] in Hs.
    specialize (IH s1 Hs). destruct (run c s1 r) as [xs s2]. exact IH.
  Qed.

  Theorem lru_bound ops : (2 * N.of_nat (length (coll (final c ops))) <= 3 * cp).
  Proof.
    assert (H : ok_len cp (final c ops)).
    { unfold final. apply ok_run. unfold ok_len, over_threshold. cbn [init coll length]. apply N.ltb_ge. lia. }
    unfold ok_len, over_threshold, lru_threshold_den, lru_threshold_num in H. apply N.ltb_ge in H. lia.
  Qed.
End Bound.

(* ---- one-step theorems (for every state, hence for every history) ---------------------- *)

Definition unchanged_on_disk (e : entry) (s : st) : Prop :=
  match e_src e with
  | None => True
  | Some k => exists f, file_get k (files s) = Some f /\ fmtime f * 1000 <= e_ctime e
  end.

Lemma read_hit c s u e : coll_get u (coll s) = Some e ->
  exists s1, coll_read c s u = (Some e, s1) /\ files s1 = files s /\ clock s1 = clock s /\
    constructions s1 = constructions s /\ next_tid s1 = next_tid s /\
    (forall v, coll_get v (coll s1) = None <-> coll_get v (coll s) = None).
Proof.
  intros H. unfold coll_read. rewrite H. destruct (cap c).
  - eexists. split; [reflexivity|]. cbn. repeat split; try reflexivity.
    + intros Hn. revert Hn. clear H. induction (coll s) as [|[u' e'] r IH]; [reflexivity|].
      cbn [coll_update coll_get]. destruct (u =? u') eqn:E1; cbn [coll_get]; destruct (v =? u'); try discriminate; auto.
    + intros Hn. revert Hn. clear H. induction (coll s) as [|[u' e'] r IH]; [reflexivity|].
      cbn [coll_update coll_get]. destruct (u =? u') eqn:E1; cbn [coll_get]; destruct (v =? u'); try discriminate; auto.
  - exists s. repeat split; auto.
Qed.

(* stable identity: nothing changed on disk (or checks are off, or the entry has no file)
   => the very same object, no construction *)
Theorem get_stable c s u e :
  coll_get u (coll s) = Some e ->
  (checks c = false \/ unchanged_on_disk e s) ->
  fst (get_template c s u) = ROk (e_tid e) (e_ver e) /\
  constructions (snd (get_template c s u)) = constructions s.
Proof.
  intros He Hwhy. unfold get_template.
  destruct (read_hit c s u e He) as [s1 [Hr [Hf [_ [Hc _]]]]]. rewrite Hr.
  destruct (checks c) eqn:Hck.
  - destruct Hwhy as [Hwhy|Hwhy]; [discriminate|].
    unfold check. unfold unchanged_on_disk in Hwhy. destruct (e_src e) as [k|]; [|split; [reflexivity|exact Hc]].
    destruct Hwhy as [f [Hfile Hm]]. rewrite Hf, Hfile.
    apply N.leb_le in Hm. rewrite Hm. split; [reflexivity|exact Hc].
  - split; [reflexivity|exact Hc].
Qed.

Definition healthy (f : file) : Prop := freadable f = true /\ fcompiles f = true.

Lemma construct_ok s k f : file_get k (files s) = Some f -> healthy f ->
  exists s2, construct_from_file s k =
    (BOk {| e_tid := next_tid s; e_src := Some k; e_ver := fver f; e_ctime := clock s; e_stamp := 0 |}, s2)
    /\ constructions s2 = constructions s + 1.
Proof.
  intros Hf [Hr Hc]. unfold construct_from_file. rewrite Hf, Hr, Hc. cbn [negb].
  eexists. split; reflexivity.
Qed.

Lemma read_miss c s u : coll_get u (coll s) = None -> coll_read c s u = (None, s).
Proof. intros H. unfold coll_read. rewrite H. reflexivity. Qed.

Lemma load_fresh c s k u f : coll_get u (coll s) = None -> file_get k (files s) = Some f -> healthy f ->
  fst (load c s k u) = ROk (next_tid s) (fver f) /\
  constructions (snd (load c s k u)) = constructions s + 1.
Proof.
  intros Hn Hf Hh. unfold load. rewrite (read_miss c s u Hn).
  destruct (construct_ok s k f Hf Hh) as [s2 [Hc Hn2]]. rewrite Hc. cbn [fst snd e_tid e_ver].
  split; [reflexivity|]. unfold coll_store. destruct (cap c); cbn [constructions]; exact Hn2.
Qed.

(* freshness: the file is newer (in whole seconds) than the compiled version => a new
   template compiled from the current content *)
Theorem get_fresh c s u e k f :
  checks c = true ->
  coll_get u (coll s) = Some e -> e_src e = Some k ->
  file_get k (files s) = Some f -> healthy f ->
  e_ctime e < fmtime f * 1000 ->
  fst (get_template c s u) = ROk (next_tid s) (fver f).
Proof.
  intros Hck He Hsrc Hf Hh Hnew. unfold get_template.
  destruct (read_hit c s u e He) as [s1 [Hr [Hfiles [_ [_ [Htid _]]]]]]. rewrite Hr, Hck.
  unfold check. rewrite Hsrc, Hfiles, Hf.
  assert (E : (fmtime f * 1000 <=? e_ctime e) = false) by (apply N.leb_gt; exact Hnew). rewrite E.
  assert (Hn : coll_get u (coll (coll_pop s1 u)) = None) by (cbn [coll_pop coll]; apply coll_get_del_same).
  assert (Hf' : file_get k (files (coll_pop s1 u)) = Some f) by (cbn [coll_pop files]; rewrite Hfiles; exact Hf).
  destruct (load_fresh c (coll_pop s1 u) k u f Hn Hf' Hh) as [Hres _].
  destruct (load c (coll_pop s1 u) k u) as [r s'] eqn:El. cbn [fst] in Hres. subst r.
  cbn [coll_pop next_tid]. rewrite Htid. reflexivity.
Qed.

Lemma first_dir_spec fs n fuel : forall d0 k,
  first_dir fs n d0 fuel = Some k ->
  snd k = n /\ d0 <= fst k /\ (exists f, file_get k fs = Some f) /\
  forall d', d0 <= d' -> d' < fst k -> file_get (d', n) fs = None.
Proof.
  induction fuel as [|fuel IH]; intros d0 k H; [discriminate|]. cbn [first_dir] in H.
  destruct (file_get (d0, n) fs) as [f|] eqn:E.
  - injection H as <-. cbn [fst snd]. repeat split; [lia|exists f; exact E|]. intros d' H1 H2. lia.
  - destruct (IH (d0 + 1) k H) as [H1 [H2 [H3 H4]]]. repeat split; [exact H1|lia|exact H3|].
    intros d' Hd1 Hd2. destruct (N.eq_dec d' d0) as [->|Hne]; [exact E|]. apply H4; lia.
Qed.

Lemma first_dir_none fs n fuel : forall d0,
  first_dir fs n d0 fuel = None ->
  forall d', d0 <= d' -> d' < d0 + N.of_nat fuel -> file_get (d', n) fs = None.
Proof.
  induction fuel as [|fuel IH]; intros d0 H d' H1 H2; [lia|]. cbn [first_dir] in H.
  destruct (file_get (d0, n) fs) eqn:E; [discriminate|].
  destruct (N.eq_dec d' d0) as [->|Hne]; [exact E|]. apply (IH (d0 + 1) H); lia.
Qed.

Lemma first_dir_complete fs n fuel : forall d0 d f,
  d0 <= d -> d < d0 + N.of_nat fuel -> file_get (d, n) fs = Some f ->
  exists k, first_dir fs n d0 fuel = Some k.
Proof.
  intros d0 d f H1 H2 Hf. destruct (first_dir fs n d0 fuel) eqn:E; [eexists; reflexivity|].
  rewrite (first_dir_none fs n fuel d0 E d H1 H2) in Hf. discriminate.
Qed.

(* an uncached URI is served from the first configured directory that contains it *)
Theorem miss_first_directory c s u k f :
  coll_get u (coll s) = None ->
  first_dir (files s) u 0 (N.to_nat (ndirs c)) = Some k ->
  file_get k (files s) = Some f -> healthy f ->
  fst (get_template c s u) = ROk (next_tid s) (fver f) /\
  (forall d', d' < fst k -> file_get (d', u) (files s) = None).
Proof.
  intros Hn Hfd Hf Hh. split.
  - unfold get_template. rewrite (read_miss c s u Hn), Hfd. apply (load_fresh c s k u f Hn Hf Hh).
  - destruct (first_dir_spec _ _ _ _ _ Hfd) as [_ [_ [_ H]]]. intros d' Hd. apply H; [lia|exact Hd].
Qed.

Lemma first_dir_bound fs n fuel : forall d0 k,
  first_dir fs n d0 fuel = Some k -> fst k < d0 + N.of_nat fuel.
Proof.
  induction fuel as [|fuel IH]; intros d0 k H; [discriminate|]. cbn [first_dir] in H.
  destruct (file_get (d0, n) fs); [injection H as <-; cbn [fst]; lia|].
  specialize (IH (d0 + 1) k H). lia.
Qed.

Theorem missing_is_toplevel c s u :
  coll_get u (coll s) = None ->
  (forall d, d < ndirs c -> file_get (d, u) (files s) = None) ->
  fst (get_template c s u) = RTopLevel /\ fst (step c s (Has u)) = RBool false.
Proof.
  intros Hn Hnone.
  assert (E : get_template c s u = (RTopLevel, s)).
  { unfold get_template. rewrite (read_miss c s u Hn).
    destruct (first_dir (files s) u 0 (N.to_nat (ndirs c))) as [k|] eqn:Hfd; [|reflexivity].
    destruct (first_dir_spec _ _ _ _ _ Hfd) as [Hk [_ [[f Hf] _]]].
    pose proof (first_dir_bound _ _ _ _ _ Hfd) as Hlt. rewrite N2Nat.id in Hlt.
    destruct k as [kd kn]. cbn [fst snd] in *. subst kn. rewrite (Hnone kd) in Hf by lia. discriminate. }
  split; [rewrite E; reflexivity|]. cbn [step]. rewrite E. reflexivity.
Qed.

(* a cached template whose file has vanished: TemplateLookupException, entry dropped *)
Theorem vanished_is_lookup_exception c s u e k :
  checks c = true -> coll_get u (coll s) = Some e -> e_src e = Some k ->
  file_get k (files s) = None ->
  fst (get_template c s u) = RLookupExc /\ coll_get u (coll (snd (get_template c s u))) = None.
Proof.
  intros Hck He Hsrc Hf. unfold get_template.
  destruct (read_hit c s u e He) as [s1 [Hr [Hfiles _]]]. rewrite Hr, Hck.
  unfold check. rewrite Hsrc, Hfiles, Hf. cbn [fst snd coll_pop coll]. split; [reflexivity|apply coll_get_del_same].
Qed.

(* a failed compilation leaves no entry behind, so that the corrected file loads
   (by miss_first_directory) *)
Theorem failed_compile_leaves_no_entry c s u k f :
  coll_get u (coll s) = None ->
  first_dir (files s) u 0 (N.to_nat (ndirs c)) = Some k ->
  file_get k (files s) = Some f -> freadable f = true -> fcompiles f = false ->
  fst (get_template c s u) = RCompileErr /\ coll_get u (coll (snd (get_template c s u))) = None /\
  files (snd (get_template c s u)) = files s.
Proof.
  intros Hn Hfd Hf Hr Hc. unfold get_template. rewrite (read_miss c s u Hn), Hfd.
  unfold load. rewrite (read_miss c s u Hn). unfold construct_from_file. rewrite Hf, Hr, Hc.
  cbn [negb fst snd coll_pop coll files]. repeat split. apply coll_get_del_same.
Qed.

(* filesystem_checks off: a loaded template keeps being returned whatever happens on disk *)
Theorem checks_off_is_sticky c s u e :
  checks c = false -> coll_get u (coll s) = Some e ->
  fst (get_template c s u) = ROk (e_tid e) (e_ver e).
Proof. intros Hck He. apply (get_stable c s u e He). left; exact Hck. Qed.

(* put_string entries are served under their URI (unbounded collection) *)
Theorem put_is_served c s u v :
  cap c = None ->
  fst (get_template c (snd (step c s (PutString u v))) u) = ROk (next_tid s) v.
Proof.
  intros Hcap. cbn [step snd]. unfold coll_store. rewrite Hcap. cbn [coll].
  set (e := {| e_tid := next_tid s; e_src := None; e_ver := v; e_ctime := clock s; e_stamp := 0 |}).
  match goal with |- fst (get_template c ?S u) = _ => set (s' := S) end.
  assert (He : coll_get u (coll s') = Some e).
  { unfold s'. cbn [coll]. destruct (coll_get u (coll s)) eqn:E.
    - apply (coll_get_update_same u (fun _ => e) _ _ E).
    - apply coll_get_app_new. exact E. }
  destruct (get_stable c s' u e He) as [H _]; [right; unfold unchanged_on_disk; cbn; exact I|exact H].
Qed.

(* ---- eviction order -------------------------------------------------------------------- *)
From Coq Require Import Sorted.

Definition newer_eq (a b : N * entry) : Prop := e_stamp (snd b) <= e_stamp (snd a).

Lemma insert_desc_in x l y : In y (insert_desc x l) <-> y = x \/ In y l.
Proof.
  induction l as [|z r IH]; cbn [insert_desc].
  - cbn. intuition.
  - destruct (e_stamp (snd z) <? e_stamp (snd x)); cbn [In]; [intuition|]. rewrite IH. intuition.
Qed.

Lemma insert_desc_sorted x l : StronglySorted newer_eq l -> StronglySorted newer_eq (insert_desc x l).
Proof.
  induction 1 as [|z r Hs IH Hall]; cbn [insert_desc].
  - constructor; constructor.
  - destruct (e_stamp (snd z) <? e_stamp (snd x)) eqn:E.
    + apply N.ltb_lt in E. constructor; [constructor; assumption|].
      constructor; [unfold newer_eq; lia|]. rewrite Forall_forall in *. intros y Hy.
      specialize (Hall y Hy). unfold newer_eq in *. lia.
    + apply N.ltb_ge in E. constructor; [exact IH|]. rewrite Forall_forall in *. intros y Hy.
      apply insert_desc_in in Hy as [->|Hy]; [unfold newer_eq; lia|apply Hall; exact Hy].
Qed.

Lemma sort_desc_sorted l : StronglySorted newer_eq (sort_desc l).
Proof.
  induction l as [|x r IH]; [constructor|]. cbn [sort_desc fold_right]. apply insert_desc_sorted. exact IH.
Qed.

Lemma in_skipn_in {A} n (l : list A) x : In x (skipn n l) -> In x l.
Proof.
  revert l; induction n as [|n IH]; intros l H; [exact H|]. destruct l as [|a l]; [destruct H|].
  right. apply IH. exact H.
Qed.

Lemma sorted_split n (l : list (N * entry)) : StronglySorted newer_eq l ->
  forall x y, In x (firstn n l) -> In y (skipn n l) -> newer_eq x y.
Proof.
  intros Hs. revert n. induction Hs as [|z r Hs IH Hall]; intros n x y Hx Hy.
  - destruct n; destruct Hx.
  - destruct n as [|n]; [destruct Hx|]. cbn [firstn skipn] in *. destruct Hx as [<-|Hx].
    + rewrite Forall_forall in Hall. apply Hall. eapply in_skipn_in. exact Hy.
    + apply (IH n); assumption.
Qed.

(* the entries _manage_size deletes are never more recently stamped than the ones it keeps *)
Theorem lru_evicts_least_recent cp l x y :
  In x (firstn (N.to_nat cp) (sort_desc l)) -> In y (skipn (N.to_nat cp) (sort_desc l)) ->
  e_stamp (snd y) <= e_stamp (snd x).
Proof. intros Hx Hy. apply (sorted_split _ _ (sort_desc_sorted l) x y Hx Hy). Qed.

(* ---- eviction is not transparent for put_string entries (refuted; the witness is the
        known finding C14-F1, replayed on the implementation by the harness) ------------- *)
Definition c1 : cfg := {| checks := true; cap := Some 1; ndirs := 1 |}.
Theorem eviction_transparent_refuted :
  exists ops u v, In (PutString u v) ops /\
    (forall d n ver m, ~ In (Write d n ver m) ops) /\
    fst (get_template c1 (final c1 ops) u) = RTopLevel.
Proof.
  exists [PutString 0 1; PutString 1 2; PutString 2 3], 0, 1.
  split; [left; reflexivity|]. split.
  - intros d n ver m [H|[H|[H|[]]]]; discriminate.
  - vm_compute. reflexivity.
Qed.
