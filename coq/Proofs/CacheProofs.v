(* Proofs/CacheProofs.v -- lemmas behind Properties/C17.v *)
From Coq Require Import Lia.
From MakoV Require Import Lib.Str Gen.Unicode Model.Cache.
Open Scope N_scope.

Lemma pair_eqb_refl k : pair_eqb k k = true.
Proof. unfold pair_eqb. rewrite !str_eqb_refl. reflexivity. Qed.

Lemma pair_eqb_eq a b : pair_eqb a b = true <-> a = b.
Proof.
  unfold pair_eqb. rewrite andb_true_iff, !str_eqb_eq. destruct a, b; cbn [fst snd].
  split; [intros [-> ->]; reflexivity|intros [= -> ->]; auto].
Qed.

Lemma slookup_sdel_same k l : slookup k (sdel k l) = None.
Proof.
  induction l as [|[k' v] r IH]; [reflexivity|]. cbn [sdel].
  destruct (pair_eqb k k') eqn:E; [exact IH|]. cbn [slookup]. rewrite E. exact IH.
Qed.

Lemma slookup_sdel_other k j l : pair_eqb k j = false -> slookup k (sdel j l) = slookup k l.
Proof.
  intros H. induction l as [|[k' v] r IH]; [reflexivity|]. cbn [sdel slookup].
  destruct (pair_eqb j k') eqn:E.
  - apply pair_eqb_eq in E. subst k'. rewrite H. exact IH.
  - cbn [slookup]. destruct (pair_eqb k k'); [reflexivity|exact IH].
Qed.

Lemma slookup_sput_same k v l : slookup k (sput k v l) = Some v.
Proof. unfold sput. cbn [slookup]. rewrite pair_eqb_refl. reflexivity. Qed.

Lemma slookup_sput_other k j v l : pair_eqb k j = false -> slookup k (sput j v l) = slookup k l.
Proof. intros H. unfold sput. cbn [slookup]. rewrite H. apply slookup_sdel_other. exact H. Qed.

(* ---- rendering never touches the cache_enabled flags ---------------------------------------- *)

Definition keeps_enabled (rec : renderer) : Prop :=
  forall uri ctx st x v st', rec uri ctx st x = Some (v, st') -> enabled st' = enabled st.

Lemma kids_keep_enabled rec : keeps_enabled rec ->
  forall uri ctx l st vs st', render_kids rec uri ctx st l = Some (vs, st') -> enabled st' = enabled st.
Proof.
  intros Hrec uri ctx l. induction l as [|k r IH]; intros st vs st' H; cbn [render_kids] in H.
  - injection H as <- <-. reflexivity.
  - destruct (rec uri ctx st k) as [[v st1]|] eqn:Hk; [|discriminate].
    destruct (render_kids rec uri ctx st1 r) as [[vs' st2]|] eqn:Hr; [|discriminate].
    injection H as <- <-. rewrite (IH _ _ _ Hr). apply (Hrec _ _ _ _ _ _ Hk).
Qed.

Lemma exec_keeps_enabled rec : keeps_enabled rec ->
  forall uri ctx s id kids v s', exec_sec rec uri ctx s id kids = Some (v, s') -> enabled s' = enabled s.
Proof.
  intros Hrec uri ctx s id kids v s' H. unfold exec_sec in H.
  destruct (render_kids _ _ _ _ kids) as [[vs s2]|] eqn:Hk; [|discriminate].
  injection H as <- <-. rewrite (kids_keep_enabled rec Hrec _ _ _ _ _ _ Hk). reflexivity.
Qed.

Lemma body_keeps_enabled rec : keeps_enabled rec -> keeps_enabled (render_sec_body rec).
Proof.
  intros Hrec uri ctx st x v st' H. destruct x as [id c key kids]. cbn [render_sec_body] in H.
  destruct (c && is_enabled st uri).
  - destruct (slookup _ (store st)); [injection H as <- <-; reflexivity|].
    destruct (exec_sec rec uri ctx st id kids) as [[v0 s2]|] eqn:Hx; [|discriminate].
    injection H as <- <-. cbn [with_store enabled]. apply (exec_keeps_enabled rec Hrec _ _ _ _ _ _ _ Hx).
  - apply (exec_keeps_enabled rec Hrec _ _ _ _ _ _ _ H).
Qed.

Lemma render_keeps_enabled fuel : keeps_enabled (render_sec fuel).
Proof.
  induction fuel as [|f IH]; [intros uri ctx st x v st' H; discriminate|].
  cbn [render_sec]. apply body_keeps_enabled. exact IH.
Qed.

(* ---- one section, cached and enabled ---------------------------------------------------- *)

(* a hit replays the stored value: nothing runs, nothing changes *)
Theorem hit_replays f uri ctx s id key kids v :
  is_enabled s uri = true ->
  slookup (module_id uri, key_of ctx key) (store s) = Some v ->
  render_sec (S f) uri ctx s (Sec id true key kids) = Some (v, s).
Proof. intros He Hl. cbn [render_sec render_sec_body andb]. rewrite He, Hl. reflexivity. Qed.

(* a miss produces exactly what the uncached section produces from the same state, and stores it *)
Theorem miss_creates_uncached_output f uri ctx s id key kids v s' :
  is_enabled s uri = true ->
  slookup (module_id uri, key_of ctx key) (store s) = None ->
  render_sec (S f) uri ctx s (Sec id true key kids) = Some (v, s') ->
  exists s2,
    render_sec (S f) uri ctx s (Sec id false key kids) = Some (v, s2) /\
    s' = with_store s2 (sput (module_id uri, key_of ctx key) v (store s2)) /\
    slookup (module_id uri, key_of ctx key) (store s') = Some v.
Proof.
  intros He Hl H. cbn [render_sec render_sec_body andb] in *. rewrite He, Hl in H.
  destruct (exec_sec (render_sec f) uri ctx s id kids) as [[v0 s2]|] eqn:Ex; [|discriminate].
  injection H as <- <-. exists s2. split; [reflexivity|]. split; [reflexivity|].
  cbn [with_store store]. apply slookup_sput_same.
Qed.

(* an executed section reports a fresh execution number: its body really ran *)
Theorem uncached_runs f uri ctx s id key kids v s' :
  render_sec (S f) uri ctx s (Sec id false key kids) = Some (v, s') ->
  exists vs, v = Val id (cget id (counters s) + 1) (ctx 0) vs.
Proof.
  intros H. cbn [render_sec render_sec_body andb] in H. unfold exec_sec in H.
  destruct (render_kids _ _ _ _ kids) as [[vs s2]|] eqn:Ex; [|discriminate].
  injection H as <- <-. exists vs. reflexivity.
Qed.

(* after creation, every later render -- under any context that yields the same key -- returns
   the creation output unchanged and runs nothing *)
Theorem replay_equals_creation_output f uri ctx ctx' s id key kids v s' :
  is_enabled s uri = true ->
  slookup (module_id uri, key_of ctx key) (store s) = None ->
  render_sec (S f) uri ctx s (Sec id true key kids) = Some (v, s') ->
  key_of ctx' key = key_of ctx key ->
  render_sec (S f) uri ctx' s' (Sec id true key kids) = Some (v, s').
Proof.
  intros He Hl H Hk.
  destruct (miss_creates_uncached_output f uri ctx s id key kids v s' He Hl H) as [s2 [Hu [Hs' Hst]]].
  apply hit_replays.
  - unfold is_enabled in *. rewrite (render_keeps_enabled _ _ _ _ _ _ _ H). exact He.
  - rewrite Hk. exact Hst.
Qed.

(* invalidation removes the entry, so the next render runs the body again *)
Theorem invalidate_forces_rerun tm fuel s uri k s1 :
  cstep tm fuel s (Invalidate uri k) = Some ([], s1) ->
  slookup (module_id uri, k) (store s1) = None.
Proof. cbn [cstep]. intros [= <-]. cbn [with_store store]. apply slookup_sdel_same. Qed.

(* cache_enabled = False: the section behaves as if it were not cached at all *)
Theorem disabled_runs_every_time f uri ctx s id key kids :
  is_enabled s uri = false ->
  render_sec (S f) uri ctx s (Sec id true key kids) = render_sec (S f) uri ctx s (Sec id false key kids).
Proof. intros He. cbn [render_sec render_sec_body andb]. rewrite He. reflexivity. Qed.

(* ---- isolation -------------------------------------------------------------------------- *)

(* operations that address another cache id leave a template's entries alone *)
Theorem isolation_partial tm fuel s uri' k' v k id :
  id <> module_id uri' ->
  (forall s1, cstep tm fuel s (Invalidate uri' k') = Some ([], s1) -> slookup (id, k) (store s1) = slookup (id, k) (store s)) /\
  (forall s1, cstep tm fuel s (CSet uri' k' v) = Some ([], s1) -> slookup (id, k) (store s1) = slookup (id, k) (store s)).
Proof.
  intros Hne.
  assert (E : pair_eqb (id, k) (module_id uri', k') = false).
  { destruct (pair_eqb (id, k) (module_id uri', k')) eqn:E; [|reflexivity].
    apply pair_eqb_eq in E. injection E as E1 _. contradiction. }
  split; intros s1; cbn [cstep]; intros [= <-]; cbn [with_store store].
  - apply slookup_sdel_other. exact E.
  - apply slookup_sput_other. exact E.
Qed.

(* "entries of one template are never served to another" is FALSE of the faithful model:
   two different URIs with the same module id; the second template's render returns the
   first template's section (id 1) -- known finding C17-F1 *)
Definition uri_a : str := s2l "/a-b".
Definition uri_b : str := s2l "/a_b".
Definition tm_ab : list (str * list sec) :=
  [(uri_a, [Sec 1 true (KConst (s2l "render_body")) []]);
   (uri_b, [Sec 2 true (KConst (s2l "render_body")) []])].

Theorem isolation_refuted :
  uri_a <> uri_b /\ module_id uri_a = module_id uri_b /\
  exists s1, crun tm_ab 5 cinit [Render uri_a 1; Render uri_b 2] = Some ([[Val 1 1 1 []]; [Val 1 1 1 []]], s1).
Proof.
  split; [discriminate|]. split; [vm_compute; reflexivity|]. eexists. vm_compute. reflexivity.
Qed.

(* ---- backend arguments ---------------------------------------------------------------------- *)

Lemma aget_app k a b : aget k (a ++ b) = match aget k a with Some v => Some v | None => aget k b end.
Proof.
  induction a as [|[k' v] r IH]; [reflexivity|]. cbn [app aget]. destruct (str_eqb k k'); [reflexivity|exact IH].
Qed.

Lemma aget_filter_absent k over base :
  aget k over = None ->
  aget k (filter (fun kv => match aget (fst kv) over with Some _ => false | None => true end) base) = aget k base.
Proof.
  intros H. induction base as [|[k' v] r IH]; [reflexivity|]. cbn [filter fst].
  destruct (aget k' over) eqn:E.
  - cbn [aget]. destruct (str_eqb k k') eqn:Ek; [|exact IH].
    apply str_eqb_eq in Ek. subst k'. congruence.
  - cbn [aget]. destruct (str_eqb k k'); [reflexivity|exact IH].
Qed.

Lemma aget_update k base over :
  aget k (update base over) = match aget k over with Some v => Some v | None => aget k base end.
Proof.
  unfold update. rewrite aget_app. destruct (aget k over) eqn:E; [reflexivity|].
  apply aget_filter_absent. exact E.
Qed.

(* the template's cache_args overridden by the <%page> cache_* overridden by the section's own *)
Theorem args_precedence k tmpl page section :
  aget k (final_args tmpl page section) =
  match aget k section with
  | Some v => Some v
  | None => match aget k page with Some v => Some v | None => aget k tmpl end
  end.
Proof.
  unfold final_args. rewrite !aget_update. destruct (aget k section); [reflexivity|].
  destruct (aget k page); reflexivity.
Qed.

(* _get_cache_kw: every render hands the backend its own arguments, whatever was asked before (an invalidate_*() before
   the first render included: the history of the repaired defect C17-F2) *)
Theorem render_args_are_its_own regions d tmpl kw :
  fst (get_cache_kw regions d true tmpl kw) = update tmpl kw.
Proof. reflexivity. Qed.

(* an invalidate_*() records nothing *)
Theorem invalidate_records_nothing regions d tmpl kw :
  snd (get_cache_kw regions d false tmpl kw) = regions.
Proof. unfold get_cache_kw. destruct (assocS d regions); reflexivity. Qed.

(* ... and addresses the backend with the arguments of the section's last render *)
Theorem invalidate_uses_last_render_args regions d tmpl kw kw' :
  let regions1 := snd (get_cache_kw regions d true tmpl kw) in
  fst (get_cache_kw regions1 d false tmpl kw') = update tmpl kw.
Proof. unfold get_cache_kw. cbn [snd assocS]. rewrite str_eqb_refl. reflexivity. Qed.

Example early_invalidate_then_render :
  let tmpl := [(s2l "timeout", 7)] in let kw := [(s2l "timeout", 90)] in let d := s2l "render_body" in
  let regions1 := snd (get_cache_kw [] d false tmpl []) in          (* invalidate_body() first *)
  fst (get_cache_kw regions1 d true tmpl kw) = [(s2l "timeout", 90)].  (* then the section renders *)
Proof. vm_compute. reflexivity. Qed.

(* ---- rendering one template never reads or writes the entries of another cache id -------- *)

Definition frames (rec : renderer) : Prop :=
  forall uri ctx st x v st', rec uri ctx st x = Some (v, st') ->
    forall id k, id <> module_id uri -> slookup (id, k) (store st') = slookup (id, k) (store st).

Lemma kids_frame rec : frames rec ->
  forall uri ctx l st vs st', render_kids rec uri ctx st l = Some (vs, st') ->
    forall id k, id <> module_id uri -> slookup (id, k) (store st') = slookup (id, k) (store st).
Proof.
  intros Hrec uri ctx l. induction l as [|x r IH]; intros st vs st' H id k Hne; cbn [render_kids] in H.
  - injection H as <- <-. reflexivity.
  - destruct (rec uri ctx st x) as [[v st1]|] eqn:Hk; [|discriminate].
    destruct (render_kids rec uri ctx st1 r) as [[vs' st2]|] eqn:Hr; [|discriminate].
    injection H as <- <-. rewrite (IH _ _ _ Hr id k Hne). apply (Hrec _ _ _ _ _ _ Hk id k Hne).
Qed.

Lemma exec_frame rec : frames rec ->
  forall uri ctx s sid kids v s', exec_sec rec uri ctx s sid kids = Some (v, s') ->
    forall id k, id <> module_id uri -> slookup (id, k) (store s') = slookup (id, k) (store s).
Proof.
  intros Hrec uri ctx s sid kids v s' H id k Hne. unfold exec_sec in H.
  destruct (render_kids _ _ _ _ kids) as [[vs s2]|] eqn:Hk; [|discriminate].
  injection H as <- <-. rewrite (kids_frame rec Hrec _ _ _ _ _ _ Hk id k Hne). reflexivity.
Qed.

Lemma body_frames rec : frames rec -> frames (render_sec_body rec).
Proof.
  intros Hrec uri ctx st x v st' H id k Hne. destruct x as [sid c key kids]. cbn [render_sec_body] in H.
  destruct (c && is_enabled st uri).
  - destruct (slookup (module_id uri, key_of ctx key) (store st)); [injection H as <- <-; reflexivity|].
    destruct (exec_sec rec uri ctx st sid kids) as [[v0 s2]|] eqn:Hx; [|discriminate].
    injection H as <- <-. cbn [with_store store].
    rewrite slookup_sput_other.
    + apply (exec_frame rec Hrec _ _ _ _ _ _ _ Hx id k Hne).
    + destruct (pair_eqb (id, k) (module_id uri, key_of ctx key)) eqn:E; [|reflexivity].
      apply pair_eqb_eq in E. injection E as E1 _. contradiction.
  - apply (exec_frame rec Hrec _ _ _ _ _ _ _ H id k Hne).
Qed.

Theorem render_isolated fuel : frames (render_sec fuel).
Proof.
  induction fuel as [|f IH]; [intros uri ctx st x v st' H; discriminate|].
  cbn [render_sec]. apply body_frames. exact IH.
Qed.
