(* Proofs/ScopeProofs.v -- lemmas behind Properties/C04.v *)
From MakoV Require Import Lib.Str Gen.Reserved Model.Scope.
Open Scope N_scope.

(* the order of the layers: a hit in an earlier layer hides every later one *)
Theorem resolution_order {V} (e : env V) x :
  resolve e x =
    match assocN x (e_locals e), assocN x (e_module e), assocN x (e_imports e), assocN x (e_context e), assocN x (e_builtins e) with
    | Some v, _, _, _, _ => FValue LLocal v
    | None, Some v, _, _, _ => FValue LModule v
    | None, None, Some v, _, _ => FValue LImport v
    | None, None, None, Some v, _ => FValue LContext v
    | None, None, None, None, Some v => FValue LBuiltin v
    | None, None, None, None, None => if e_strict e then FNameError else FUndefined
    end.
Proof. unfold resolve. destruct (assocN x (e_locals e)), (assocN x (e_module e)), (assocN x (e_imports e)), (assocN x (e_context e)), (assocN x (e_builtins e)); reflexivity. Qed.

Theorem strict_only_changes_the_last_case {V} (e : env V) x v l :
  resolve e x = FValue l v ->
  resolve {| e_locals := e_locals e; e_module := e_module e; e_imports := e_imports e; e_context := e_context e; e_builtins := e_builtins e; e_strict := negb (e_strict e) |} x = FValue l v.
Proof.
  unfold resolve. cbn [e_locals e_module e_imports e_context e_builtins e_strict].
  destruct (assocN x (e_locals e)), (assocN x (e_module e)), (assocN x (e_imports e)), (assocN x (e_context e)), (assocN x (e_builtins e)); try (intros H; exact H).
  destruct (e_strict e); discriminate.
Qed.

(* template code never alters the data seen by other scopes or by the caller of render: _locals gives a
   new context and leaves the one it was called on, and kwargs, as they were *)
Theorem locals_leaves_the_original {V} (c : context V) d :
  c_kwargs (locals_ c d) = c_kwargs c /\
  (forall x, assocN x d = None -> assocN x (c_data (locals_ c d)) = assocN x (c_data c)) /\
  (forall x v, assocN x d = Some v -> assocN x (c_data (locals_ c d)) = Some v).
Proof.
  destruct d as [|kv r]; cbn [locals_ c_kwargs c_data].
  - split; [reflexivity|]. split; [reflexivity|]. intros x v H. discriminate.
  - split; [reflexivity|]. split.
    + intros x H. set (d := kv :: r) in *. clearbody d. induction d as [|[k w] d IH]; [reflexivity|].
      cbn [assocN app] in *. destruct (x =? k); [discriminate|apply IH; exact H].
    + intros x v H. set (d := kv :: r) in *. clearbody d. induction d as [|[k w] d IH]; [discriminate|].
      cbn [assocN app] in *. destruct (x =? k); [exact H|apply IH; exact H].
Qed.

Theorem kwargs_are_the_render_arguments {V} (args extras : list (N * V)) : c_kwargs (new_context args extras) = args.
Proof. reflexivity. Qed.

(* a def called by name from the body sees the current value of a name the body has assigned, else the
   page argument / context value, else the builtin *)
Lemma assocN_app_some {A} k (a b : list (N * A)) v : assocN k a = Some v -> assocN k (a ++ b) = Some v.
Proof. induction a as [|[k' v'] r IH]; intros H; [discriminate|]. cbn [assocN app] in *. destruct (k =? k'); [exact H|apply IH; exact H]. Qed.
Lemma assocN_app_none {A} k (a b : list (N * A)) : assocN k a = None -> assocN k (a ++ b) = assocN k b.
Proof. induction a as [|[k' v'] r IH]; intros H; [reflexivity|]. cbn [assocN app] in *. destruct (k =? k'); [discriminate|apply IH; exact H]. Qed.

Theorem def_sees_current_assignment {V} (c : context V) mlocals builtins x v rest :
  run_body c mlocals builtins (BAssign x v :: BCallDef x :: rest) =
    FValue LContext v :: run_body c ((x, v) :: mlocals) builtins rest.
Proof.
  cbn [run_body]. f_equal. unfold resolve. cbn [e_locals e_module e_imports e_context assocN locals_ c_data app]. rewrite N.eqb_refl. reflexivity.
Qed.

Theorem def_sees_context_when_body_has_not_assigned {V} (c : context V) mlocals builtins x rest :
  assocN x mlocals = None ->
  run_body c mlocals builtins (BCallDef x :: rest) =
    (match assocN x (c_data c) with
     | Some v => FValue LContext v
     | None => match assocN x builtins with Some v => FValue LBuiltin v | None => FUndefined end
     end) :: run_body c mlocals builtins rest.
Proof.
  intros H. cbn [run_body]. f_equal. unfold resolve. cbn [e_locals e_module e_imports e_context e_builtins e_strict assocN].
  assert (E : assocN x (c_data (locals_ c mlocals)) = assocN x (c_data c)).
  { destruct mlocals as [|kv r]; [reflexivity|]. cbn [locals_ c_data]. apply assocN_app_none. exact H. }
  rewrite E. reflexivity.
Qed.

(* the reserved names: loop is reserved exactly while enabled; the others always *)
Theorem reserved_rejected :
  conflict true [s2l "context"] = true /\ conflict true [s2l "UNDEFINED"] = true /\ conflict true [s2l "STOP_RENDERING"] = true /\
  conflict true [s2l "loop"] = true /\ conflict false [s2l "loop"] = false /\
  conflict false [s2l "context"] = true /\ conflict false [s2l "UNDEFINED"] = true /\ conflict false [s2l "STOP_RENDERING"] = true.
Proof. vm_compute. repeat split. Qed.

Theorem conflict_iff enable_loop names :
  conflict enable_loop names = true <-> exists x, In x names /\ In x (reserved enable_loop).
Proof.
  unfold conflict. rewrite existsb_exists. split.
  - intros (x & Hx & H). apply existsb_exists in H as (y & Hy & E). apply str_eqb_eq in E. subst y. exists x. split; assumption.
  - intros (x & Hx & Hr). exists x. split; [exact Hx|]. apply existsb_exists. exists x. split; [exact Hr|apply str_eqb_refl].
Qed.
