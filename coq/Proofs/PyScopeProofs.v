(* Proofs/PyScopeProofs.v -- FindIdentifiers against Python's scoping (scope part of Properties/C19.v) *)
From Coq Require Import Lia.
From MakoV Require Import Lib.Str Model.PyScope.
Open Scope N_scope.

(* ---- the fragment without nested scopes: names, operators, assignments, for / if / try, imports -- *)
Fixpoint flat_expr (fuel : nat) (e : expr) : bool :=
  match fuel with
  | O => false
  | S f => match e with
           | EName _ | EConst => true
           | EOp l => forallb (flat_expr f) l
           | _ => false
           end
  end.

Fixpoint flat_stmts (fuel : nat) (l : list stmt) : bool :=
  match fuel with
  | O => false
  | S f =>
      forallb (fun st =>
        match st with
        | SExpr e => flat_expr f e
        | SAssign _ e => flat_expr f e
        | SFor _ it b o => flat_expr f it && flat_stmts f b && flat_stmts f o
        | SIf t b o => flat_expr f t && flat_stmts f b && flat_stmts f o
        | SImport _ => true
        | SDef _ _ _ _ => false
        | STryExcept b ty _ h => flat_stmts f b && (match ty with Some t => flat_expr f t | None => true end) && flat_stmts f h
        end) l
  end.

Definition known (s : fstate) (x : N) : Prop := In x (declared s) \/ In x (locals s).

Lemma read_name_spec s x :
  in_function (read_name s x) = in_function s /\ locals (read_name s x) = locals s /\ declared (read_name s x) = declared s /\
  (forall y, In y (undeclared (read_name s x)) <-> In y (undeclared s) \/ (y = x /\ ~ known s x)).
Proof.
  unfold read_name, known. destruct (memN x (declared s) || memN x (locals s)) eqn:E.
  - repeat split; try reflexivity.
    + intros H; left; exact H.
    + intros [H|[-> H]]; [exact H|]. exfalso. apply H. apply orb_true_iff in E as [E|E]; apply memN_In in E; tauto.
  - cbn. repeat split; try reflexivity.
    + intros [<-|H]; [right|left; exact H]. split; [reflexivity|]. apply orb_false_iff in E as [E1 E2].
      apply memN_false in E1, E2. tauto.
    + intros [H|[-> _]]; [right; exact H|left; reflexivity].
Qed.

(* expressions of the fragment change nothing but the undeclared set, which gains exactly the
   names read that are not known *)
Lemma fi_expr_flat : forall f e s, flat_expr f e = true ->
  in_function (fi_expr f s e) = in_function s /\ locals (fi_expr f s e) = locals s /\ declared (fi_expr f s e) = declared s /\
  (forall y, In y (undeclared (fi_expr f s e)) <-> In y (undeclared s) \/ (In y (free_expr f e) /\ ~ known s y)).
Proof.
  induction f as [|f IH]; intros e s H; [discriminate|].
  destruct e as [x| |l|ps ds b|el tg it ifs]; cbn [flat_expr] in H; try discriminate; cbn [fi_expr free_expr].
  - destruct (read_name_spec s x) as (A & B & C & D). repeat split; try assumption.
    + intros Hy. apply D in Hy as [Hy|[-> Hk]]; [left; exact Hy|right; split; [left; reflexivity|exact Hk]].
    + intros [Hy|[[<-|[]] Hk]]; apply D; [left; exact Hy|right; split; [reflexivity|exact Hk]].
  - repeat split; try reflexivity; [intros Hy; left; exact Hy|intros [Hy|[[] _]]; exact Hy].
  - revert s. induction l as [|e r IHl]; intros s.
    + cbn. repeat split; try reflexivity; [intros Hy; left; exact Hy|intros [Hy|[[] _]]; exact Hy].
    + cbn [forallb] in H. apply andb_true_iff in H as [He Hr]. cbn [fold_left flat_map].
      destruct (IH e s He) as (A & B & C & D). destruct (IHl Hr (fi_expr f s e)) as (A' & B' & C' & D').
      rewrite A', B', C', A, B, C. repeat split; try reflexivity.
      * intros Hy. apply D' in Hy as [Hy|[Hy Hk]].
        -- apply D in Hy as [Hy|[Hy Hk]]; [left; exact Hy|right; split; [apply in_or_app; left; exact Hy|exact Hk]].
        -- right. split; [apply in_or_app; right; exact Hy|]. unfold known in *. rewrite B, C in Hk. exact Hk.
      * intros [Hy|[Hy Hk]]; apply D'.
        -- left. apply D. left. exact Hy.
        -- apply in_app_or in Hy as [Hy|Hy].
           ++ left. apply D. right. split; assumption.
           ++ right. split; [exact Hy|]. unfold known in *. rewrite B, C. exact Hk.
Qed.

Lemma add_declared_top s x : in_function s = false ->
  in_function (add_declared s x) = false /\ locals (add_declared s x) = locals s /\
  declared (add_declared s x) = x :: declared s /\ undeclared (add_declared s x) = undeclared s.
Proof. intros H. unfold add_declared. rewrite H. repeat split. Qed.

Lemma add_declared_fold_top l : forall s, in_function s = false ->
  let s' := fold_left add_declared l s in
  in_function s' = false /\ locals s' = locals s /\ (forall y, In y (declared s') <-> In y (declared s) \/ In y l) /\ undeclared s' = undeclared s.
Proof.
  induction l as [|x r IH]; intros s H; cbn [fold_left].
  - cbn zeta. repeat split; try assumption; try reflexivity; cbn [In]; tauto.
  - destruct (add_declared_top s x H) as (A & B & C & D). destruct (IH (add_declared s x) A) as (A' & B' & C' & D').
    cbn zeta in *. rewrite B', D', B, D. repeat split; try assumption.
    + intros Hy. apply C' in Hy. rewrite C in Hy. cbn [In] in *. tauto.
    + intros Hy. apply C'. rewrite C. cbn [In] in *. tauto.
Qed.

(* the block invariant: at top level, statements of the fragment declare exactly what they bind,
   demand only names they read, and demand every name they read that is never declared *)
Definition block_ok (f : nat) (l : list stmt) (s s' : fstate) : Prop :=
  in_function s' = false /\ locals s' = locals s /\
  (forall y, In y (declared s') <-> In y (declared s) \/ In y (binds f l)) /\
  (forall y, In y (undeclared s) -> In y (undeclared s')) /\
  (forall y, In y (undeclared s') -> In y (undeclared s) \/ In y (free_stmts f l)) /\
  (forall y, In y (free_stmts f l) -> ~ In y (declared s') -> ~ In y (locals s) -> In y (undeclared s')).

Lemma expr_step f e s : flat_expr f e = true -> in_function s = false ->
  let s' := fi_expr f s e in
  in_function s' = false /\ locals s' = locals s /\ declared s' = declared s /\
  (forall y, In y (undeclared s) -> In y (undeclared s')) /\
  (forall y, In y (undeclared s') -> In y (undeclared s) \/ In y (free_expr f e)) /\
  (forall y, In y (free_expr f e) -> ~ In y (declared s) -> ~ In y (locals s) -> In y (undeclared s')).
Proof.
  intros He Hs. destruct (fi_expr_flat f e s He) as (A & B & C & D). cbn zeta. rewrite A, B, C. repeat split; try assumption.
  - intros y Hy. apply D. left. exact Hy.
  - intros y Hy. apply D in Hy. tauto.
  - intros y Hy H1 H2. apply D. right. split; [exact Hy|]. unfold known. tauto.
Qed.

(* sequencing two block_ok pieces *)
Lemma block_seq (fa fb fab ba bb bab : list N) s s1 s2 :
  (forall y, In y fab <-> In y fa \/ In y fb) -> (forall y, In y bab <-> In y ba \/ In y bb) ->
  (in_function s1 = false /\ locals s1 = locals s /\ (forall y, In y (declared s1) <-> In y (declared s) \/ In y ba) /\
   (forall y, In y (undeclared s) -> In y (undeclared s1)) /\ (forall y, In y (undeclared s1) -> In y (undeclared s) \/ In y fa) /\
   (forall y, In y fa -> ~ In y (declared s1) -> ~ In y (locals s) -> In y (undeclared s1))) ->
  (in_function s2 = false /\ locals s2 = locals s1 /\ (forall y, In y (declared s2) <-> In y (declared s1) \/ In y bb) /\
   (forall y, In y (undeclared s1) -> In y (undeclared s2)) /\ (forall y, In y (undeclared s2) -> In y (undeclared s1) \/ In y fb) /\
   (forall y, In y fb -> ~ In y (declared s2) -> ~ In y (locals s1) -> In y (undeclared s2))) ->
  (in_function s2 = false /\ locals s2 = locals s /\ (forall y, In y (declared s2) <-> In y (declared s) \/ In y bab) /\
   (forall y, In y (undeclared s) -> In y (undeclared s2)) /\ (forall y, In y (undeclared s2) -> In y (undeclared s) \/ In y fab) /\
   (forall y, In y fab -> ~ In y (declared s2) -> ~ In y (locals s) -> In y (undeclared s2))).
Proof.
  intros Hf Hb (A1 & B1 & C1 & D1 & E1 & F1) (A2 & B2 & C2 & D2 & E2 & F2).
  split; [exact A2|]. split; [congruence|]. split; [|split; [|split]].
  - intros y. rewrite C2, C1, Hb. tauto.
  - intros y Hy. apply D2, D1, Hy.
  - intros y Hy. rewrite Hf. apply E2 in Hy as [Hy|Hy]; [apply E1 in Hy|]; tauto.
  - intros y Hy Hd Hl. apply Hf in Hy as [Hy|Hy].
    + apply D2. apply F1; [exact Hy| |exact Hl]. intros Hd1. apply Hd. apply C2. left. exact Hd1.
    + apply F2; [exact Hy|exact Hd|]. rewrite B1. exact Hl.
Qed.

Lemma block_id (s : fstate) : in_function s = false ->
  (in_function s = false /\ locals s = locals s /\ (forall y, In y (declared s) <-> In y (declared s) \/ In y []) /\
   (forall y, In y (undeclared s) -> In y (undeclared s)) /\ (forall y, In y (undeclared s) -> In y (undeclared s) \/ In y []) /\
   (forall y, In y (@nil N) -> ~ In y (declared s) -> ~ In y (locals s) -> In y (undeclared s))).
Proof. intros H. repeat split; try assumption; cbn [In]; tauto. Qed.

Lemma expr_as_block f e s : flat_expr f e = true -> in_function s = false ->
  let s' := fi_expr f s e in
  (in_function s' = false /\ locals s' = locals s /\ (forall y, In y (declared s') <-> In y (declared s) \/ In y []) /\
   (forall y, In y (undeclared s) -> In y (undeclared s')) /\ (forall y, In y (undeclared s') -> In y (undeclared s) \/ In y (free_expr f e)) /\
   (forall y, In y (free_expr f e) -> ~ In y (declared s') -> ~ In y (locals s) -> In y (undeclared s'))).
Proof.
  intros He Hs. destruct (expr_step f e s He Hs) as (A & B & C & D & E & F). cbn zeta in *.
  repeat split; try assumption; rewrite ?C; cbn [In]; try tauto; try (intros y Hy Hd Hl; apply F; assumption).
Qed.

Lemma decl_as_block l s : in_function s = false ->
  let s' := fold_left add_declared l s in
  (in_function s' = false /\ locals s' = locals s /\ (forall y, In y (declared s') <-> In y (declared s) \/ In y l) /\
   (forall y, In y (undeclared s) -> In y (undeclared s')) /\ (forall y, In y (undeclared s') -> In y (undeclared s) \/ In y []) /\
   (forall y, In y (@nil N) -> ~ In y (declared s') -> ~ In y (locals s) -> In y (undeclared s'))).
Proof.
  intros Hs. destruct (add_declared_fold_top l s Hs) as (A & B & C & D). cbn zeta in *.
  repeat split; try assumption; rewrite ?D; cbn [In]; try tauto; apply C.
Qed.

Lemma blocks_flat : forall f l s, flat_stmts f l = true -> in_function s = false ->
  block_ok f l s (fold_left (fi_stmt f) l s).
Proof.
  induction f as [|f IH]; intros l s H Hs; [discriminate|].
  revert s Hs. induction l as [|st r IHl]; intros s Hs.
  - cbn [fold_left]. unfold block_ok. cbn [binds free_stmts flat_map]. apply block_id. exact Hs.
  - cbn [flat_stmts forallb] in H. apply andb_true_iff in H as [Hst Hr].
    assert (Hr' : flat_stmts (S f) r = true) by exact Hr.
    cbn [fold_left]. unfold block_ok. cbn [binds free_stmts flat_map].
    (* the head statement as a block *)
    assert (Hhead : let s1 := fi_stmt (S f) s st in
      exists fa ba,
        (match st with
         | SExpr e => free_expr f e | SAssign _ e => free_expr f e
         | SFor _ it b o => free_expr f it ++ free_stmts f b ++ free_stmts f o
         | SIf t b o => free_expr f t ++ free_stmts f b ++ free_stmts f o
         | SImport _ => []
         | SDef _ ps defaults body => flat_map (free_expr f) defaults ++ minus (free_stmts f body) (all_params ps ++ binds f body)
         | STryExcept b ty _ h => free_stmts f b ++ (match ty with Some t => free_expr f t | None => [] end) ++ free_stmts f h
         end) = fa /\
        (match st with
         | SExpr _ => [] | SAssign t _ => t | SFor t _ b o => t ++ binds f b ++ binds f o | SIf _ b o => binds f b ++ binds f o
         | SImport n => n | SDef name _ _ _ => [name]
         | STryExcept b _ n h => binds f b ++ (match n with Some x => [x] | None => [] end) ++ binds f h
         end) = ba /\
        (in_function s1 = false /\ locals s1 = locals s /\ (forall y, In y (declared s1) <-> In y (declared s) \/ In y ba) /\
         (forall y, In y (undeclared s) -> In y (undeclared s1)) /\ (forall y, In y (undeclared s1) -> In y (undeclared s) \/ In y fa) /\
         (forall y, In y fa -> ~ In y (declared s1) -> ~ In y (locals s) -> In y (undeclared s1)))).
    { cbn zeta. eexists. eexists. split; [reflexivity|]. split; [reflexivity|].
      destruct st as [e|t e|t it b o|t b o|n|name ps ds body|b ty n h]; cbn [fi_stmt]; try discriminate.
      - apply expr_as_block; assumption.
      - pose proof (expr_as_block f e s Hst Hs) as P1. cbn zeta in P1.
        assert (Hs1 : in_function (fi_expr f s e) = false) by apply P1.
        pose proof (decl_as_block t (fi_expr f s e) Hs1) as P2. cbn zeta in P2.
        eapply (block_seq (free_expr f e) [] (free_expr f e) [] t t); [| |exact P1|exact P2].
        + intros y. rewrite ?in_app_iff. cbn [In]. tauto.
        + intros y. cbn [In]. tauto.
      - apply andb_true_iff in Hst as [Hst Ho]. apply andb_true_iff in Hst as [Hit Hb].
        pose proof (expr_as_block f it s Hit Hs) as P1. cbn zeta in P1.
        assert (Hs1 : in_function (fi_expr f s it) = false) by apply P1.
        pose proof (decl_as_block t (fi_expr f s it) Hs1) as P2. cbn zeta in P2.
        set (s2 := fold_left add_declared t (fi_expr f s it)) in *.
        assert (Hs2 : in_function s2 = false) by apply P2.
        pose proof (IH b s2 Hb Hs2) as P3. unfold block_ok in P3.
        set (s3 := fold_left (fi_stmt f) b s2) in *.
        assert (Hs3 : in_function s3 = false) by apply P3.
        pose proof (IH o s3 Ho Hs3) as P4. unfold block_ok in P4.
        eapply (block_seq (free_expr f it ++ free_stmts f b) (free_stmts f o) _ (t ++ binds f b) (binds f o) _); [| | |exact P4].
        + intros y. rewrite ?in_app_iff. tauto.
        + intros y. rewrite ?in_app_iff. tauto.
        + eapply (block_seq (free_expr f it) (free_stmts f b) _ t (binds f b) _); [| | |exact P3].
          * intros y. rewrite ?in_app_iff. tauto.
          * intros y. rewrite ?in_app_iff. tauto.
          * eapply (block_seq (free_expr f it) [] _ [] t _); [| |exact P1|exact P2].
            -- intros y. cbn [In]. tauto.
            -- intros y. cbn [In]. tauto.
      - apply andb_true_iff in Hst as [Hst Ho]. apply andb_true_iff in Hst as [Ht Hb].
        pose proof (expr_as_block f t s Ht Hs) as P1. cbn zeta in P1.
        set (s1 := fi_expr f s t) in *.
        assert (Hs1 : in_function s1 = false) by apply P1.
        pose proof (IH b s1 Hb Hs1) as P3. unfold block_ok in P3.
        set (s3 := fold_left (fi_stmt f) b s1) in *.
        assert (Hs3 : in_function s3 = false) by apply P3.
        pose proof (IH o s3 Ho Hs3) as P4. unfold block_ok in P4.
        eapply (block_seq (free_expr f t ++ free_stmts f b) (free_stmts f o) _ (binds f b) (binds f o) _); [| | |exact P4].
        + intros y. rewrite ?in_app_iff. tauto.
        + intros y. rewrite ?in_app_iff. tauto.
        + eapply (block_seq (free_expr f t) (free_stmts f b) _ [] (binds f b) _); [| |exact P1|exact P3].
          * intros y. rewrite ?in_app_iff. tauto.
          * intros y. cbn [In]. tauto.
      - apply decl_as_block. exact Hs.
      - apply andb_true_iff in Hst as [Hst Hh]. apply andb_true_iff in Hst as [Hb Hty].
        pose proof (IH b s Hb Hs) as P1. unfold block_ok in P1.
        set (s1 := fold_left (fi_stmt f) b s) in *.
        assert (Hs1 : in_function s1 = false) by apply P1.
        set (s2 := match n with Some n0 => add_declared s1 n0 | None => s1 end).
        assert (P2 : in_function s2 = false /\ locals s2 = locals s1 /\
                     (forall y, In y (declared s2) <-> In y (declared s1) \/ In y (match n with Some x => [x] | None => [] end)) /\
                     (forall y, In y (undeclared s1) -> In y (undeclared s2)) /\ (forall y, In y (undeclared s2) -> In y (undeclared s1) \/ In y []) /\
                     (forall y, In y (@nil N) -> ~ In y (declared s2) -> ~ In y (locals s1) -> In y (undeclared s2))).
        { subst s2. destruct n as [n0|]; [|apply block_id; exact Hs1]. apply (decl_as_block [n0] s1 Hs1). }
        assert (Hs2 : in_function s2 = false) by apply P2.
        set (s3 := match ty with Some t => fi_expr f s2 t | None => s2 end).
        assert (P3 : in_function s3 = false /\ locals s3 = locals s2 /\
                     (forall y, In y (declared s3) <-> In y (declared s2) \/ In y []) /\
                     (forall y, In y (undeclared s2) -> In y (undeclared s3)) /\
                     (forall y, In y (undeclared s3) -> In y (undeclared s2) \/ In y (match ty with Some t => free_expr f t | None => [] end)) /\
                     (forall y, In y (match ty with Some t => free_expr f t | None => [] end) -> ~ In y (declared s3) -> ~ In y (locals s2) -> In y (undeclared s3))).
        { subst s3. destruct ty as [t|]; [|apply block_id; exact Hs2]. apply (expr_as_block f t s2 Hty Hs2). }
        assert (Hs3 : in_function s3 = false) by apply P3.
        pose proof (IH h s3 Hh Hs3) as P4. unfold block_ok in P4.
        (* note the order in the code: the name is declared before the type expression is read *)
        eapply (block_seq (free_stmts f b ++ match ty with Some t => free_expr f t | None => [] end) (free_stmts f h) _
                  (binds f b ++ match n with Some x => [x] | None => [] end) (binds f h) _); [| | |exact P4].
        + intros y. rewrite ?in_app_iff. tauto.
        + intros y. rewrite ?in_app_iff. tauto.
        + eapply (block_seq (free_stmts f b) (match ty with Some t => free_expr f t | None => [] end) _
                    (binds f b ++ match n with Some x => [x] | None => [] end) [] _); [| | |exact P3].
          * intros y. rewrite ?in_app_iff. tauto.
          * intros y. rewrite ?in_app_iff. cbn [In]. tauto.
          * eapply (block_seq (free_stmts f b) [] _ (binds f b) (match n with Some x => [x] | None => [] end) _); [| |exact P1|exact P2].
            -- intros y. cbn [In]. tauto.
            -- intros y. rewrite ?in_app_iff. tauto. }
    cbn zeta in Hhead. destruct Hhead as (fa & ba & Efa & Eba & Phead).
    assert (Hs1 : in_function (fi_stmt (S f) s st) = false) by apply Phead.
    pose proof (IHl Hr' (fi_stmt (S f) s st) Hs1) as Ptail. unfold block_ok in Ptail.
    rewrite Efa, Eba.
    eapply (block_seq fa (free_stmts (S f) r) _ ba (binds (S f) r) _); [| |exact Phead|exact Ptail].
    + intros y. rewrite ?in_app_iff. tauto.
    + intros y. rewrite ?in_app_iff. tauto.
Qed.

(* On code without nested scopes FindIdentifiers is exactly right: every name the code needs from
   the template's namespace is demanded, every name it binds is declared, and nothing is demanded
   that the code does not read *)
Theorem scope_exact_without_nested_scopes n code :
  flat_stmts n code = true ->
  (forall x, In x (needs_f n code) -> In x (snd (find_identifiers_f n code))) /\
  (forall x, In x (fst (find_identifiers_f n code)) <-> In x (binds n code)) /\
  (forall x, In x (snd (find_identifiers_f n code)) -> In x (free_stmts n code)).
Proof.
  intros H. pose proof (blocks_flat n code f0 H) as P. specialize (P eq_refl). unfold block_ok in P.
  destruct P as (A & B & C & D & E & F).
  unfold find_identifiers_f, needs_f. cbn [fst snd]. split; [|split; [split|]].
  - intros x Hx. unfold minus in Hx. apply filter_In in Hx as [Hx Hn]. apply negb_true_iff, memN_false in Hn.
    apply F; [exact Hx| |cbn; tauto]. intros Hd. apply C in Hd as [[]|Hd]. exact (Hn Hd).
  - intros Hx. apply C in Hx as [[]|Hx]. exact Hx.
  - intros Hx. apply C. right. exact Hx.
  - intros x Hx. apply E in Hx as [[]|Hx]. exact Hx.
Qed.

(* ... but not in general.  A local of a nested function that is read before the function assigns
   it is demanded from the context although the code binds it itself (flow-sensitive locals,
   known finding C19-F2) *)
Theorem no_spurious_demand_refuted :
  exists code x, In x (snd (find_identifiers code)) /\ ~ In x (fst (find_identifiers code)) /\ ~ In x (needs_from_namespace code).
Proof.
  exists [SDef 1 {| p_pos := []; p_star := None; p_kwonly := []; p_dstar := None |} [] [SExpr (EName 2); SAssign [2] EConst]], 2.
  vm_compute. split; [left; reflexivity|]. split; [intros [H|[]]; discriminate|tauto].
Qed.

(* ... and the target of a comprehension at block level is declared as if the block bound it, before
   the iterable is read: a name the block needs is then not obtained from the namespace (the
   behaviour test_ast.test_locate_identifiers_9 pins; known finding C19-F2) *)
Theorem needed_names_demanded_refuted :
  exists code x, In x (needs_from_namespace code) /\ ~ In x (snd (find_identifiers code)).
Proof.
  exists [SExpr (EComp [EConst] [4] (EName 4) [])], 4.
  vm_compute. split; [left; reflexivity|tauto].
Qed.

(* the two histories of the repaired defects (fix commits 106ecee, 611809b): parameters of every kind are
   local, defaults are read outside, the element of a comprehension inside a function is read *)
Example repaired_scope_cases :
  find_identifiers [SAssign [1] (ELambda {| p_pos := [2]; p_star := Some 3; p_kwonly := [5]; p_dstar := Some 6 |} [EName 4]
                                   (EOp [EName 2; EName 3; EName 5; EName 6]))] = ([1], [4]) /\
  find_identifiers [SDef 1 {| p_pos := []; p_star := None; p_kwonly := []; p_dstar := None |} []
                      [SExpr (EComp [EName 7; EName 8] [8] (EName 9) [EName 10])]] = ([1], [7; 10; 9]).
Proof. vm_compute. split; reflexivity. Qed.
