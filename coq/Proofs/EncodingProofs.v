(* Proofs/EncodingProofs.v -- lemmas behind Properties/C18.v *)
From Coq Require Import Lia.
From MakoV Require Import Lib.Str Gen.Unicode Model.Encoding.
Open Scope N_scope.

Lemma span_e_app p s : forall a b, span_e p s = (a, b) -> s = a ++ b /\ forallb p a = true.
Proof.
  induction s as [|c r IH]; intros a b H; cbn [span_e] in H.
  - injection H as <- <-. split; reflexivity.
  - destruct (p c) eqn:E.
    + destruct (span_e p r) as [a' b'] eqn:E2. injection H as <- <-. destruct (IH a' b' eq_refl) as [-> Hf].
      split; [reflexivity|]. cbn [forallb]. rewrite E, Hf. reflexivity.
    + injection H as <- <-. split; reflexivity.
Qed.

(* ---- the shape of a recognised coding comment --------------------------------------------------- *)
Definition no_lf (s : str) : Prop := forallb (fun x => negb (x =? LF)) s = true.

Lemma try_at_shape s name rest : try_at s = Some (name, rest) ->
  exists sep ws post nl,
    s = s2l "coding" ++ [sep] ++ ws ++ name ++ post ++ [nl] ++ rest /\
    (sep = cCOLONe \/ sep = cEQe) /\ forallb is_blank_e ws = true /\
    name <> [] /\ forallb is_namechar_e name = true /\ no_lf post.
Proof.
  unfold try_at. destruct (strip_prefix (s2l "coding") s) as [[|e r1]|] eqn:Ep; try discriminate.
  apply strip_prefix_spec in Ep. destruct ((e =? cCOLONe) || (e =? cEQe)) eqn:Es; [|discriminate].
  destruct (span_e is_blank_e r1) as [ws r2] eqn:E1. destruct (span_e is_namechar_e r2) as [nm r3] eqn:E2.
  destruct nm as [|n0 nm']; [discriminate|].
  destruct (span_e (fun x => negb (x =? LF)) r3) as [post r4] eqn:E3. destruct r4 as [|nl rest']; [discriminate|].
  intros [= <- <-]. apply span_e_app in E1 as [-> H1]. apply span_e_app in E2 as [-> H2]. apply span_e_app in E3 as [-> H3].
  exists e, ws, post, nl. repeat split; try assumption.
  - apply orb_true_iff in Es as [Es|Es]; apply N.eqb_eq in Es; tauto.
  - discriminate.
Qed.

Lemma find_last_shape r : forall name rest, find_last r = Some (name, rest) ->
  exists pre s, r = pre ++ s /\ no_lf pre /\ try_at s = Some (name, rest).
Proof.
  induction r as [|c r' IH]; intros name rest H.
  - cbn [find_last] in H. exists [], []. repeat split; assumption.
  - cbn [find_last] in H. destruct (c =? LF) eqn:Ec.
    + exists [], (c :: r'). repeat split. exact H.
    + destruct (find_last r') as [[n1 r1]|] eqn:El.
      * injection H as <- <-. destruct (IH n1 r1 eq_refl) as (pre & s & -> & Hp & Ht).
        exists (c :: pre), s. repeat split; [|exact Ht]. unfold no_lf. cbn [forallb]. rewrite Ec. exact Hp.
      * exists [], (c :: r'). repeat split. exact H.
Qed.

(* a recognised comment starts with "#", has "coding" + ":" or "=" on its first line, then optional
   whitespace, a non-empty name of word characters, "-" and ".", and the line the name is on ends
   with a line feed; what follows that line feed is where the template begins *)
Theorem coding_comment_shape s name rest : coding_match s = Some (name, rest) ->
  exists pre sep ws post nl,
    s = [cHASHe] ++ pre ++ s2l "coding" ++ [sep] ++ ws ++ name ++ post ++ [nl] ++ rest /\
    no_lf pre /\ (sep = cCOLONe \/ sep = cEQe) /\ forallb is_blank_e ws = true /\
    name <> [] /\ forallb is_namechar_e name = true /\ no_lf post.
Proof.
  unfold coding_match. destruct s as [|c r]; [discriminate|]. destruct (c =? cHASHe) eqn:Ec; [|discriminate].
  apply N.eqb_eq in Ec. subst c. intros H. apply find_last_shape in H as (pre & s & -> & Hp & Ht).
  apply try_at_shape in Ht as (sep & ws & post & nl & -> & Hs & Hw & Hn & Hnc & Hpost).
  exists pre, sep, ws, post, nl. repeat split; assumption.
Qed.

(* the whole declaration stands on the first line: nothing of what the pattern consumes before the final line feed is a
   line feed (true since the blanks after the colon are blanks and tabs only, fix 099dbc7) *)
Lemma blank_no_lf ws : forallb is_blank_e ws = true -> no_lf ws.
Proof.
  unfold no_lf. induction ws as [|c r IH]; [reflexivity|]. cbn [forallb]. intros H. apply andb_true_iff in H as [Hc Hr].
  rewrite (IH Hr), andb_true_r. unfold is_blank_e in Hc. apply orb_true_iff in Hc as [Hc|Hc]; apply N.eqb_eq in Hc; subst c; reflexivity.
Qed.

Lemma namechar_no_lf nm : forallb is_namechar_e nm = true -> no_lf nm.
Proof.
  unfold no_lf. induction nm as [|c r IH]; [reflexivity|]. cbn [forallb]. intros H. apply andb_true_iff in H as [Hc Hr].
  rewrite (IH Hr), andb_true_r. destruct (c =? LF) eqn:E; [|reflexivity]. apply N.eqb_eq in E. subst c. vm_compute in Hc. discriminate.
Qed.

Lemma no_lf_app a b : no_lf a -> no_lf b -> no_lf (a ++ b).
Proof. unfold no_lf. intros Ha Hb. rewrite forallb_app, Ha, Hb. reflexivity. Qed.

Theorem coding_comment_on_first_line s name rest : coding_match s = Some (name, rest) ->
  exists line nl, s = line ++ [nl] ++ rest /\ no_lf line.
Proof.
  intros H. apply coding_comment_shape in H as (pre & sep & ws & post & nl & -> & Hp & Hs & Hw & _ & Hn & Hpost).
  exists ([cHASHe] ++ pre ++ s2l "coding" ++ [sep] ++ ws ++ name ++ post), nl. split.
  - rewrite <- !app_assoc. reflexivity.
  - repeat apply no_lf_app; try assumption; try reflexivity.
    + destruct Hs as [-> | ->]; reflexivity.
    + apply blank_no_lf. exact Hw.
    + apply namechar_no_lf. exact Hn.
Qed.

(* text that does not start with "#" declares nothing *)
Theorem no_hash_no_comment s : (match s with c :: _ => c <> cHASHe | [] => True end) -> coding_match s = None.
Proof.
  destruct s as [|c r]; intros H; [reflexivity|]. unfold coding_match. apply N.eqb_neq in H. rewrite H. reflexivity.
Qed.

(* ---- the decision table -------------------------------------------------------------------------- *)
Section Decide.
Variable dec_ignore : list N -> str.
Variable names_utf8 : str -> bool.

Theorem comment_beats_input_encoding b known name rest :
  strip_prefix BOM b = None -> coding_match (dec_ignore b) = Some (name, rest) ->
  decide dec_ignore names_utf8 (IBytes b) known = OBytes name b.
Proof. intros Hb Hc. unfold decide. rewrite Hb, Hc. reflexivity. Qed.

Theorem input_encoding_then_utf8 b known :
  strip_prefix BOM b = None -> coding_match (dec_ignore b) = None ->
  decide dec_ignore names_utf8 (IBytes b) known = OBytes (or_default known) b.
Proof. intros Hb Hc. unfold decide. rewrite Hb, Hc. reflexivity. Qed.

Theorem bom_is_utf8 p known :
  (coding_match (dec_ignore p) = None \/ exists name rest, coding_match (dec_ignore p) = Some (name, rest) /\ names_utf8 name = true) ->
  decide dec_ignore names_utf8 (IBytes (BOM ++ p)) known = OBytes utf8 p.
Proof.
  intros H. unfold decide. rewrite strip_prefix_app. destruct H as [->|(name & rest & -> & Hn)]; [reflexivity|].
  rewrite Hn. reflexivity.
Qed.

Theorem bom_conflict_raises p known name rest :
  coding_match (dec_ignore p) = Some (name, rest) -> names_utf8 name = false ->
  decide dec_ignore names_utf8 (IBytes (BOM ++ p)) known = OBomConflict name.
Proof.
  intros H Hn. unfold decide. rewrite strip_prefix_app, H, Hn. reflexivity.
Qed.

Theorem str_is_returned_unchanged t known : exists e, decide dec_ignore names_utf8 (IStr t) known = OStr e t.
Proof. unfold decide. destruct (coding_match t) as [[n r]|]; eexists; reflexivity. Qed.

Variable dec : str -> list N -> option str.

Theorem undecodable_raises text known e p :
  decide dec_ignore names_utf8 text known = OBytes e p -> dec e p = None ->
  decode_raw_stream dec_ignore names_utf8 dec text known = RCompileError.
Proof. intros H Hd. unfold decode_raw_stream. rewrite H. cbn [finish]. rewrite Hd. reflexivity. Qed.

Theorem decodable_gives_decoded_text text known e p t :
  decide dec_ignore names_utf8 text known = OBytes e p -> dec e p = Some t ->
  decode_raw_stream dec_ignore names_utf8 dec text known = RText e t.
Proof. intros H Hd. unfold decode_raw_stream. rewrite H. cbn [finish]. rewrite Hd. reflexivity. Qed.

(* bytes compile to the same template as their decoded text: the same encoding is chosen for the
   text given as str when the comment is visible in it *)
Theorem bytes_like_decoded_text b known name rest t :
  strip_prefix BOM b = None -> coding_match (dec_ignore b) = Some (name, rest) -> dec name b = Some t ->
  coding_match t = Some (name, rest) ->
  decode_raw_stream dec_ignore names_utf8 dec (IBytes b) known = decode_raw_stream dec_ignore names_utf8 dec (IStr t) known.
Proof.
  intros Hb Hc Hd Ht. unfold decode_raw_stream, decide. rewrite Hb, Hc, Ht. cbn [finish]. rewrite Hd. reflexivity.
Qed.
End Decide.

(* ---- output ------------------------------------------------------------------------------------------ *)
Section Out.
Variable enc : str -> str -> str -> option (list N).

Theorem render_unicode_ignores_output_encoding oe1 oe2 er1 er2 pieces :
  render_out enc true oe1 er1 pieces = render_out enc true oe2 er2 pieces.
Proof. reflexivity. Qed.

Theorem render_is_str_without_output_encoding errors pieces :
  render_out enc false None errors pieces = render_out enc true None errors pieces.
Proof. reflexivity. Qed.

Theorem render_is_encode_of_render_unicode e errors pieces text :
  e <> [] -> render_out enc true (Some e) errors pieces = RStr text ->
  render_out enc false (Some e) errors pieces =
    match enc e errors text with Some b => RBytes b | None => REncodeError end.
Proof.
  intros He H. cbn [render_out] in H. injection H as <-. unfold render_out. destruct e; [congruence|reflexivity].
Qed.
End Out.
