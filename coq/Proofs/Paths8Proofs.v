(* Proofs/Paths8Proofs.v -- lemmas behind Properties/C08.v *)
From Coq Require Import Permutation Lia.
From MakoV Require Import Lib.Str Gen.Unicode Model.Paths8.
Open Scope N_scope.

(* ---- the order of the hoisted declarations does not matter ----------------------------------------- *)
Lemma run_decls_lookup {V} (src : N -> V) names : forall env x,
  assocN x (run_decls src names env) = if memN x names then Some (src x) else assocN x env.
Proof.
  induction names as [|n r IH]; intros env x; [reflexivity|].
  unfold run_decls in *. cbn [fold_left]. rewrite IH. cbn [memN existsb assocN].
  destruct (memN x r) eqn:E.
  - unfold memN in E. rewrite E, orb_true_r. reflexivity.
  - unfold memN in E. rewrite E, orb_false_r. destruct (x =? n) eqn:En; [apply N.eqb_eq in En; subst; reflexivity|reflexivity].
Qed.

Lemma memN_perm x l l' : Permutation l l' -> memN x l = memN x l'.
Proof.
  intros H. destruct (memN x l) eqn:E.
  - apply memN_In in E. symmetry. apply memN_In. eapply Permutation_in; eassumption.
  - apply memN_false in E. symmetry. apply memN_false. intros H'. apply E. eapply Permutation_in; [apply Permutation_sym; eassumption|exact H'].
Qed.

(* for every set of hoisted names, every order in which they are emitted binds every name to the same
   value: the render function starts in the same environment whatever PYTHONHASHSEED is *)
Theorem decl_order_irrelevant {V} (src : N -> V) names names' env :
  Permutation names names' -> forall x, assocN x (run_decls src names env) = assocN x (run_decls src names' env).
Proof. intros H x. rewrite !run_decls_lookup, (memN_perm x _ _ H). reflexivity. Qed.

(* ---- the registry --------------------------------------------------------------------------------------- *)
Lemma answers_register_all r : forall l u,
  (forall u' t', In (u', t') l -> module_id u' <> module_id u) -> answers (register_all r l) u = answers r u.
Proof.
  intros l. revert r. induction l as [|[u0 t0] rest IH]; intros r u H; [reflexivity|].
  cbn [register_all]. rewrite IH by (intros u' t' Hin; apply (H u' t'); right; exact Hin).
  unfold answers, register. cbn [assocS]. destruct (str_eqb (module_id u) (module_id u0)) eqn:E; [|reflexivity].
  apply str_eqb_eq in E. exfalso. apply (H u0 t0); [left; reflexivity|congruence].
Qed.

(* the registry answers with the template's own text and module as long as no template constructed
   later has the same module identifier *)
Theorem registry_own_source_partial r u t later :
  (forall u' t', In (u', t') later -> module_id u' <> module_id u) ->
  answers (register_all (register r u t) later) u = Some t.
Proof.
  intros H. rewrite answers_register_all by exact H. unfold answers, register. cbn [assocS]. rewrite str_eqb_refl. reflexivity.
Qed.

(* ... but two URIs that differ only in characters outside the word class share an identifier: a lookup
   by module name then answers with the later template's source (what a traceback frame of the earlier
   template is reported with: known finding C12-F3; Template.source itself is repaired, fix 027f356) *)
Theorem registry_own_source_refuted :
  exists u1 u2, u1 <> u2 /\ answers (register_all [] [(u1, 1); (u2, 2)]) u1 = Some 2.
Proof. exists (s2l "/a-b.html"), (s2l "/a_b.html"). split; [discriminate|]. vm_compute. reflexivity. Qed.

Theorem module_id_keeps_word_characters uri : forallb is_word uri = true -> module_id uri = uri.
Proof.
  induction uri as [|c r IH]; intros H; [reflexivity|]. cbn [forallb] in H. apply andb_true_iff in H as [Hc Hr].
  cbn [module_id map]. rewrite Hc. f_equal. apply IH. exact Hr.
Qed.
