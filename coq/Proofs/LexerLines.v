(* Proofs/LexerLines.v -- templates made of any number of text lines, double-percent lines and double-hash comment
   lines, in any order: what is written is the text with one percent sign of each double percent removed and the
   comment lines gone.  The composition of the single-construct equations of LexerEscapes.v, by induction. *)
From Coq Require Import Lia.
From MakoV Require Import Lib.Str Gen.Unicode Gen.LexerOrder Gen.Parsetree Model.Lexer Proofs.LexerProofs Proofs.LexerEscapes.
Open Scope N_scope.

Inductive lkind := KPct | KHash (c : str).
Definition src_k (k : lkind) : str := match k with KPct => [cPCT; cPCT] | KHash c => cHASH :: cHASH :: c ++ [LF] end.
Definition out_k (k : lkind) : str := match k with KPct => [cPCT] | KHash _ => [] end.
Definition bol_after (k : lkind) : bool := match k with KPct => false | KHash _ => true end.
Definition k_ok (k : lkind) : bool := match k with KPct => true | KHash c => linetext c end.

(* the text in front of a construct: nothing (the construct opens the line the previous one ended), or directive-free text
   that ends in a line feed; at a line start it begins with a character that is not white space *)
Definition block_ok (bol : bool) (b : str) : Prop :=
  (b = [] /\ bol = true) \/
  (exists a, b = a ++ [LF] /\ plain a = true /\ (bol = true -> match b with x :: _ => is_space x = false | [] => False end)).

Fixpoint wf (bol : bool) (items : list (str * lkind)) (tail : str) : Prop :=
  match items with
  | [] => plain tail = true
  | (b, k) :: r => block_ok bol b /\ k_ok k = true /\ wf (bol_after k) r tail
  end.

Fixpoint doc (items : list (str * lkind)) (tail : str) : str :=
  match items with [] => tail | (b, k) :: r => b ++ src_k k ++ doc r tail end.
Fixpoint expected (items : list (str * lkind)) (tail : str) : str :=
  match items with [] => tail | (b, k) :: r => b ++ out_k k ++ expected r tail end.

(* what follows a double percent does not begin with a percent sign *)
Lemma wf_head_not_pct items tail : wf false items tail -> match doc items tail with c :: _ => (c =? cPCT) = false | [] => True end.
Proof.
  destruct items as [|[b k] r]; cbn [wf doc].
  - intros Hp. destruct tail as [|c t]; [exact I|]. exact (plain_head_not c t cPCT Hp eq_refl).
  - intros ([[_ Hb]|(a & -> & Ha & _)] & _); [discriminate|].
    destruct a as [|c a]; cbn [app]; [reflexivity|]. exact (plain_head_not c a cPCT Ha eq_refl).
Qed.

Lemma percent_step' st t :
  at_bol (cur st) = true -> c_rest (cur st) = cPCT :: cPCT :: t -> match t with c :: _ => (c =? cPCT) = false | [] => True end ->
  exists st', cascade matcher_order st = Continue st' /\ c_rest (cur st') = t /\ c_prev (cur st') = Some cPCT /\
              tags st' = tags st /\ ctls st' = ctls st /\ out st' = out st ++ [cPCT].
Proof.
  intros Hb Er Ht.
  destruct (lt_matchers_first st cPCT (cPCT :: t) Er eq_refl) as (H1 & H2 & H3 & H4).
  assert (Hcl : m_control_line st = NoMatch).
  { unfold m_control_line. rewrite Hb, Er. reflexivity. }
  assert (Hsp : span (fun x => x =? cPCT) t = ([], t)).
  { destruct t as [|c t']; [reflexivity|]. apply span_none. exact Ht. }
  assert (Hpc : scan_percent (cPCT :: cPCT :: t) = Some ([], [], [cPCT; cPCT], t)).
  { unfold scan_percent. rewrite (span_none is_space cPCT (cPCT :: t) space_not_pct). cbn [strip_prefix].
    rewrite N.eqb_refl, Hsp. reflexivity. }
  eexists. split.
  - unfold matcher_order. cbn [cascade run_matcher].
    rewrite ?(m_expression_first st cPCT (cPCT :: t) Er eq_refl), ?Hcl, ?H1, ?H2, ?H3, ?H4.
    unfold m_percent. rewrite Hb, Er, Hpc. cbn [negb]. reflexivity.
  - cbn [push_ev cur advance c_rest c_prev tags ctls]. rewrite out_push. cbn. auto.
Qed.

Lemma cascade_midline st c r :
  at_bol (cur st) = false -> c_rest (cur st) = c :: r -> plainc c = true -> cascade matcher_order st = m_text st.
Proof.
  intros Hb Er Hc.
  assert (Hp : plain [c] = true) by (cbn; rewrite Hc; reflexivity).
  destruct (lt_matchers_first st c r Er (plain_head_not c [] cLT Hp eq_refl)) as (H1 & H2 & H3 & H4).
  assert (Hcl : m_control_line st = NoMatch) by (unfold m_control_line; rewrite Hb; reflexivity).
  assert (Hpc : m_percent st = NoMatch) by (unfold m_percent; rewrite Hb; reflexivity).
  unfold matcher_order. cbn [cascade run_matcher].
  rewrite ?(m_expression_first st c r Er (plain_head_not c [] cDOLLAR Hp eq_refl)), ?Hcl, ?H1, ?H2, ?H3, ?H4, ?Hpc.
  destruct (m_text st); reflexivity.
Qed.

Lemma text_block_step st a rest :
  c_rest (cur st) = (a ++ [LF]) ++ rest -> plain a = true ->
  (at_bol (cur st) = true -> match a ++ [LF] with x :: _ => is_space x = false | [] => False end) ->
  text_stop_here (Some LF) rest = true ->
  exists st', cascade matcher_order st = Continue st' /\ c_rest (cur st') = rest /\ at_bol (cur st') = true /\
              tags st' = tags st /\ ctls st' = ctls st /\ out st' = out st ++ a ++ [LF].
Proof.
  intros Er Ha Hhead Hstop.
  assert (Hp : plain (a ++ [LF]) = true) by (rewrite plain_app, Ha; reflexivity).
  destruct (m_text_stop st a LF rest Er Hp eq_refl Hstop) as (st' & Hm & Hr & Hpv & Ht & Hc & Ho).
  exists st'. split; [|split; [exact Hr|split; [unfold at_bol; rewrite Hpv; reflexivity|auto]]].
  destruct (at_bol (cur st)) eqn:Hb.
  - specialize (Hhead eq_refl). destruct a as [|x a']; cbn [app] in Hhead; [discriminate Hhead|].
    assert (Er0 : c_rest (cur st) = [] ++ x :: (a' ++ [LF]) ++ rest) by (rewrite Er; reflexivity).
    rewrite (cascade_head st [] x _ Er0 eq_refl Hhead); try exact Hm; cbn [hd].
    + exact (plain_head_not x a' cPCT Ha eq_refl).
    + exact (plain_head_not x a' cHASH Ha eq_refl).
    + exact (plain_head_not x a' cDOLLAR Ha eq_refl).
    + exact (plain_head_not x a' cLT Ha eq_refl).
  - destruct (a ++ [LF]) as [|c l] eqn:E; [destruct a; discriminate|].
    rewrite (cascade_midline st c (l ++ rest) Hb); [exact Hm|rewrite Er; reflexivity|].
    cbn [plain forallb] in Hp. apply andb_prop in Hp as [Hc' _]. exact Hc'.
Qed.

Lemma newline_ends_lf nlw nl t : eat_newline nlw = Some (nl, t) -> exists pre, nl = pre ++ [LF].
Proof.
  destruct nlw as [|y r]; [discriminate|]. cbn [eat_newline].
  destruct (y =? LF) eqn:E1.
  - intros [= <- <-]. exists []. reflexivity.
  - destruct (y =? CR) eqn:E2; [|discriminate]. destruct r as [|d r2]; [discriminate|].
    destruct (d =? LF) eqn:E3; [|discriminate]. intros [= <- <-]. exists [CR]. reflexivity.
Qed.

Lemma last_char_lf x d : last_char (x ++ [LF]) d = Some LF.
Proof. unfold last_char. rewrite rev_unit. reflexivity. Qed.

Lemma hash_comment_step2 st c nlw nl t :
  at_bol (cur st) = true -> c_rest (cur st) = cHASH :: cHASH :: c ++ nlw -> linetext c = true -> eat_newline nlw = Some (nl, t) ->
  exists st', cascade matcher_order st = Continue st' /\ c_rest (cur st') = t /\ at_bol (cur st') = true /\
              tags st' = tags st /\ ctls st' = ctls st /\ out st' = out st.
Proof.
  intros Hb Er Hc Hn.
  assert (Hscl : exists lead text, scan_control_line (cHASH :: cHASH :: c ++ nlw) = Some (CtlHash, lead, text, nl, t)).
  { unfold scan_control_line. rewrite (span_none is_blank cHASH _ eq_refl).
    replace (cHASH =? cPCT) with false by reflexivity. rewrite N.eqb_refl.
    destruct (span is_blank (c ++ nlw)) as [bl r2] eqn:E.
    assert (Hsplit : exists c', c = bl ++ c' /\ r2 = c' ++ nlw).
    { rewrite (span_blank_line c nlw nl t Hn) in E. injection E as <- <-.
      exists (snd (span is_blank c)). split; [symmetry; apply span_split|reflexivity]. }
    destruct Hsplit as (c' & -> & ->).
    rewrite linetext_app in Hc. apply andb_prop in Hc as [_ Hc'].
    rewrite (scan_ctl_items_line c' [] None nlw Hc' (ex_intro _ nl (ex_intro _ t Hn))).
    cbn [app]. destruct nlw as [|y r]; [discriminate|]. rewrite Hn. eexists. eexists. reflexivity. }
  destruct Hscl as (lead & text & Hscl).
  destruct (newline_ends_lf nlw nl t Hn) as (pre & ->).
  eexists. split.
  - unfold matcher_order. cbn [cascade run_matcher].
    rewrite ?(m_expression_first st cHASH _ Er eq_refl).
    unfold m_control_line. rewrite Hb, Er, Hscl. cbn [negb]. reflexivity.
  - cbn [push_ev cur advance c_rest c_prev tags ctls]. rewrite out_push. cbn [emit mk_event ev_kind]. rewrite app_nil_r.
    split; [reflexivity|]. split; [|auto].
    unfold at_bol. cbn [c_prev advance]. rewrite !app_assoc, last_char_lf. reflexivity.
Qed.

(* one construct at a line start *)
Lemma construct_step st k rest :
  at_bol (cur st) = true -> c_rest (cur st) = src_k k ++ rest -> k_ok k = true ->
  (k = KPct -> match rest with c :: _ => (c =? cPCT) = false | [] => True end) ->
  exists st', cascade matcher_order st = Continue st' /\ c_rest (cur st') = rest /\ at_bol (cur st') = bol_after k /\
              tags st' = tags st /\ ctls st' = ctls st /\ out st' = out st ++ out_k k.
Proof.
  intros Hb Er Hk Hnp. destruct k as [|c].
  - destruct (percent_step' st rest Hb Er (Hnp eq_refl)) as (st' & H1 & H2 & H3 & H4 & H5 & H6).
    exists st'. split; [exact H1|]. split; [exact H2|]. split; [unfold at_bol; rewrite H3; reflexivity|auto].
  - cbn [src_k] in Er. cbn [k_ok] in Hk.
    assert (Er' : c_rest (cur st) = cHASH :: cHASH :: c ++ (LF :: rest)) by (rewrite Er; cbn [app]; rewrite <- app_assoc; reflexivity).
    destruct (hash_comment_step2 st c (LF :: rest) [LF] rest Hb Er' Hk eq_refl) as (st' & H1 & H2 & H3 & H4 & H5 & H6).
    exists st'. cbn [out_k bol_after]. rewrite app_nil_r. repeat split; auto.
Qed.

Lemma stop_at_construct k rest : text_stop_here (Some LF) (src_k k ++ rest) = true.
Proof. destruct k; reflexivity. Qed.

Lemma src_k_cons k rest : exists x r, src_k k ++ rest = x :: r.
Proof. destruct k; cbn [src_k app]; eexists; eexists; reflexivity. Qed.

Lemma lines_loop : forall items tail bol st fuel,
  wf bol items tail -> c_rest (cur st) = doc items tail -> at_bol (cur st) = bol -> quiet st ->
  (2 * length items + 2 <= fuel)%nat ->
  flat_map emit (fst (lex_loop fuel st)) = out st ++ expected items tail /\ snd (lex_loop fuel st) = LexOk.
Proof.
  induction items as [|[b k] r IH]; intros tail bol st fuel Hwf Er Hb Hq Hf.
  - cbn [wf doc expected length] in *. rewrite <- Er. apply lex_loop_plain_out'; [lia|rewrite Er; exact Hwf|exact Hq].
  - cbn [wf doc expected] in *. destruct Hwf as (Hblk & Hk & Hr). cbn [length] in Hf.
    assert (Hnp : k = KPct -> match doc r tail with c :: _ => (c =? cPCT) = false | [] => True end).
    { intros ->. apply wf_head_not_pct. exact Hr. }
    destruct Hq as [Ht Hc].
    destruct Hblk as [[-> Hbt]|(a & -> & Ha & Hhead)].
    + (* the construct opens the line *)
      cbn [app] in *. subst bol.
      destruct (construct_step st k (doc r tail) Hb Er Hk Hnp) as (st' & Hcas & Hr' & Hb' & Ht' & Hc' & Ho').
      destruct (src_k_cons k (doc r tail)) as (x & rr & Hx).
      destruct fuel as [|f]; [lia|].
      rewrite (lex_loop_step f st st' x rr (eq_trans Er Hx) Hcas).
      destruct (IH tail (bol_after k) st' f Hr Hr' Hb') as [Ho Hk']; [split; congruence|lia|].
      rewrite Ho, Hk', Ho'. split; [rewrite <- app_assoc; reflexivity|reflexivity].
    + (* text up to the end of a line, then the construct *)
      rewrite <- app_assoc in Er. rewrite app_assoc in Er.
      assert (Hh : at_bol (cur st) = true -> match a ++ [LF] with x :: _ => is_space x = false | [] => False end).
      { intros E. apply Hhead. congruence. }
      destruct (text_block_step st a (src_k k ++ doc r tail) Er Ha Hh (stop_at_construct k _)) as (st1 & Hcas1 & Hr1 & Hb1 & Ht1 & Hc1 & Ho1).
      destruct (construct_step st1 k (doc r tail) Hb1 Hr1 Hk Hnp) as (st2 & Hcas2 & Hr2 & Hb2 & Ht2 & Hc2 & Ho2).
      destruct (src_k_cons k (doc r tail)) as (x & rr & Hx).
      assert (Hne : exists y yr, c_rest (cur st) = y :: yr).
      { rewrite Er. destruct a; cbn [app]; eexists; eexists; reflexivity. }
      destruct Hne as (y & yr & Hy).
      destruct fuel as [|[|f]]; [lia|lia|].
      rewrite (lex_loop_step (S f) st st1 y yr Hy Hcas1).
      rewrite (lex_loop_step f st1 st2 x rr (eq_trans Hr1 Hx) Hcas2).
      destruct (IH tail (bol_after k) st2 f Hr Hr2 Hb2) as [Ho Hk']; [split; congruence|lia|].
      rewrite Ho, Hk', Ho2, Ho1. split; [rewrite <- !app_assoc; reflexivity|reflexivity].
Qed.

Lemma doc_length items tail : (2 * length items <= length (doc items tail))%nat.
Proof.
  induction items as [|[b k] r IH]; cbn [doc length]; [lia|]. rewrite !app_length.
  assert (2 <= length (src_k k))%nat by (destruct k; cbn [src_k length]; lia). lia.
Qed.

(* any number of text lines, double-percent lines and double-hash comment lines, in any order *)
Theorem lines_written_exactly items tail :
  wf true items tail -> scan_coding (doc items tail) = None ->
  output (doc items tail) = expected items tail /\ snd (lex (doc items tail)) = LexOk.
Proof.
  intros Hwf Hcod. unfold output, lex, lex_start. rewrite Hcod.
  set (st0 := {| cur := {| c_rest := doc items tail; c_off := 0; c_line := 1; c_colbase := 0; c_prev := None |};
                 tags := []; ctls := []; evs := [] |}).
  pose proof (doc_length items tail) as Hl.
  destruct (lines_loop items tail true st0 (S (S (length (doc items tail)))) Hwf eq_refl eq_refl (conj eq_refl eq_refl)) as [Ho Hk]; [lia|].
  rewrite Ho, Hk. split; reflexivity.
Qed.

(* the magic-comment hypothesis holds whenever the template does not begin with a hash *)
Lemma no_coding_unless_hash s : (match s with c :: _ => (c =? cHASH) = false | [] => True end) -> scan_coding s = None.
Proof. destruct s as [|c r]; [reflexivity|]. intros H. cbn [scan_coding]. rewrite H. reflexivity. Qed.

(* the hypotheses as a boolean test *)
Definition block_okb (bol : bool) (b : str) : bool :=
  match b with
  | [] => bol
  | x :: _ =>
      match rev b with
      | l :: ra => (l =? LF) && plain (rev ra) && (negb bol || negb (is_space x))
      | [] => false
      end
  end.

Fixpoint wfb (bol : bool) (items : list (str * lkind)) (tail : str) : bool :=
  match items with
  | [] => plain tail
  | (b, k) :: r => block_okb bol b && k_ok k && wfb (bol_after k) r tail
  end.

Lemma block_okb_sound bol b : block_okb bol b = true -> block_ok bol b.
Proof.
  unfold block_okb, block_ok. destruct b as [|x b']; [intros ->; left; auto|].
  destruct (rev (x :: b')) as [|l ra] eqn:E; [discriminate|]. intros H.
  apply andb_prop in H as [H H3]. apply andb_prop in H as [H1 H2]. apply N.eqb_eq in H1. subst l.
  right. exists (rev ra). split.
  - rewrite <- (rev_involutive (x :: b')), E. reflexivity.
  - split; [exact H2|]. intros ->. cbn [negb orb] in H3. apply negb_true_iff in H3. exact H3.
Qed.

Lemma wfb_sound : forall items bol tail, wfb bol items tail = true -> wf bol items tail.
Proof.
  induction items as [|[b k] r IH]; intros bol tail H; cbn [wfb wf] in *; [exact H|].
  apply andb_prop in H as [H H3]. apply andb_prop in H as [H1 H2].
  split; [apply block_okb_sound; exact H1|]. split; [exact H2|apply IH; exact H3].
Qed.

Example lines_nonvacuous :
  let items := [ (s2l "Dear reader," ++ [LF], KPct); (s2l " of the cases" ++ [LF] ++ s2l "second line" ++ [LF], KHash (s2l " internal note ${x} <%text>"));
                 ([], KHash []); ([], KPct); (s2l " done!" ++ [LF], KPct) ] in
  let tail := s2l " end" ++ [LF] in
  wfb true items tail = true /\ scan_coding (doc items tail) = None /\
  doc items tail = s2l "Dear reader," ++ [LF] ++ s2l "%% of the cases" ++ [LF] ++ s2l "second line" ++ [LF] ++ s2l "## internal note ${x} <%text>" ++ [LF]
                   ++ s2l "##" ++ [LF] ++ s2l "%% done!" ++ [LF] ++ s2l "%% end" ++ [LF] /\
  output (doc items tail) = s2l "Dear reader," ++ [LF] ++ s2l "% of the cases" ++ [LF] ++ s2l "second line" ++ [LF] ++ s2l "% done!" ++ [LF] ++ s2l "% end" ++ [LF].
Proof. vm_compute. repeat split; reflexivity. Qed.
