(* Proofs/PyExprProofs.v -- the expression printer (printer part of Properties/C19.v) *)
From Coq Require Import Lia.
From MakoV Require Import Lib.Str Gen.AstUtil Model.PyExpr.
Open Scope N_scope.

Definition is_some {A} (o : option A) : bool := match o with Some _ => true | None => false end.

(* the sublanguage the printer has a rule and a symbol for *)
Fixpoint supported (fuel : nat) (e : pexpr) : bool :=
  match fuel with
  | O => false
  | S f =>
      let sup := supported f in
      let osup o := match o with Some x => sup x | None => true end in
      match e with
      | PName _ | PConst _ => true
      | PAttr v _ => sup v
      | PCall fn args kw => sup fn && forallb sup args && forallb (fun ka => is_some (fst ka) && sup (snd ka)) kw
      | PBin op l r => is_some (assocS op binop_symbols) && sup l && sup r
      | PBool op vs => is_some (assocS op boolop_symbols) && forallb sup vs
      | PCmp l rest => sup l && forallb (fun oe => is_some (assocS (fst oe) cmpop_symbols) && sup (snd oe)) rest
      | PUnary op x => is_some (assocS op unaryop_symbols) && sup x
      | PSub v sl => sup v && sup sl
      | PSlice lo up st => osup lo && osup up && osup st
      | PTuple l | PList l | PSet l => forallb sup l
      | PDict kv => forallb (fun kv0 => match fst kv0 with Some k => sup k | None => false end && sup (snd kv0)) kv
      | PIfExp b t o => sup b && sup t && sup o
      | PLambda _ defaults _ _ _ body => forallb sup defaults && sup body
      | PStarred x => sup x
      | POther _ _ => false
      end
  end.

Lemma seq_opt_all {A B} (g : A -> option B) (ok : A -> bool) (l : list A) :
  (forall a, ok a = true -> exists b, g a = Some b) -> forallb ok l = true -> exists bs, seq_opt (map g l) = Some bs.
Proof.
  intros Hg. induction l as [|a r IH]; intros H; [exists []; reflexivity|].
  cbn [forallb] in H. apply andb_true_iff in H as [Ha Hr]. destruct (Hg a Ha) as [b Hb]. destruct (IH Hr) as [bs Hbs].
  exists (b :: bs). cbn [map seq_opt]. rewrite Hb, Hbs. reflexivity.
Qed.

(* on that sublanguage the printer never raises *)
Theorem print_total_on_supported : forall f e, supported f e = true -> exists s, print f e = Some s.
Proof.
  induction f as [|f IH]; intros e H; [discriminate|].
  assert (Hl : forall l, forallb (supported f) l = true -> exists xs, seq_opt (map (print f) l) = Some xs).
  { intros l. apply seq_opt_all. exact IH. }
  destruct e; cbn [supported] in H; cbn [print];
    repeat match goal with X : _ && _ = true |- _ => apply andb_true_iff in X as [? ?] end.
  - eexists; reflexivity.
  - eexists; reflexivity.
  - destruct (IH e H) as [s ->]. eexists; reflexivity.
  - destruct (IH e) as [s ->]; [assumption|]. destruct (Hl args) as [xs ->]; [assumption|].
    match goal with |- exists _, match ?X with _ => _ end = _ => destruct (seq_opt_all
      (fun ka : option str * pexpr => match fst ka, print f (snd ka) with Some k, Some v => Some (k ++ [61] ++ v) | _, _ => None end)
      (fun ka => is_some (fst ka) && supported f (snd ka)) kw) as [ks Hk] end; [|assumption|].
    + intros [k v] Hkv. cbn [fst snd] in *. apply andb_true_iff in Hkv as [Hk1 Hk2]. destruct k; [|discriminate].
      destruct (IH v Hk2) as [sv ->]. eexists; reflexivity.
    + rewrite Hk. eexists; reflexivity.
  - destruct (assocS op binop_symbols); [|discriminate]. destruct (IH e1) as [s1 ->]; [assumption|].
    destruct (IH e2) as [s2 ->]; [assumption|]. eexists; reflexivity.
  - destruct (assocS op boolop_symbols); [|discriminate]. destruct (Hl vs) as [xs ->]; [assumption|]. eexists; reflexivity.
  - destruct (IH e) as [s ->]; [assumption|].
    destruct (seq_opt_all
      (fun oe : str * pexpr => match assocS (fst oe) cmpop_symbols, print f (snd oe) with Some sym, Some s0 => Some ([32] ++ sym ++ [32] ++ s0) | _, _ => None end)
      (fun oe => is_some (assocS (fst oe) cmpop_symbols) && supported f (snd oe)) rest) as [ps Hp]; [|assumption|].
    + intros [o v] Hov. cbn [fst snd] in *. apply andb_true_iff in Hov as [Hk1 Hk2]. destruct (assocS o cmpop_symbols); [|discriminate].
      destruct (IH v Hk2) as [sv ->]. eexists; reflexivity.
    + rewrite Hp. eexists; reflexivity.
  - destruct (assocS op unaryop_symbols); [|discriminate]. destruct (IH e) as [s ->]; [assumption|]. eexists; reflexivity.
  - destruct (IH e1) as [s1 ->]; [assumption|]. destruct (IH e2) as [s2 ->]; [assumption|]. eexists; reflexivity.
  - assert (Ho : forall o, match o with Some x => supported f x | None => true end = true ->
                           exists s, match o with Some y => print f y | None => Some [] end = Some s).
    { intros [x|] Hx; [apply IH; exact Hx|eexists; reflexivity]. }
    destruct (Ho lo) as [a ->]; [assumption|]. destruct (Ho up) as [b ->]; [assumption|].
    destruct st as [s0|]; [|eexists; reflexivity].
    destruct (IH s0) as [c Hc]; [assumption|].
    destruct s0; try (rewrite Hc; eexists; reflexivity).
    destruct (str_eqb s (s2l "None")); eexists; reflexivity.
  - destruct (Hl l H) as [xs ->]. destruct xs as [|x [|y r]]; eexists; reflexivity.
  - destruct (Hl l H) as [xs ->]. eexists; reflexivity.
  - destruct (Hl l H) as [xs ->]. eexists; reflexivity.
  - destruct (seq_opt_all
      (fun kv0 : option pexpr * pexpr => match fst kv0 with
         | Some k => match print f k, print f (snd kv0) with Some a, Some b => Some (a ++ s2l ": " ++ b) | _, _ => None end
         | None => None end)
      (fun kv0 => match fst kv0 with Some k => supported f k | None => false end && supported f (snd kv0)) kv) as [xs Hx]; [|assumption|].
    + intros [k v] Hkv. cbn [fst snd] in *. apply andb_true_iff in Hkv as [Hk1 Hk2]. destruct k as [k|]; [|discriminate].
      destruct (IH k Hk1) as [sk ->]. destruct (IH v Hk2) as [sv ->]. eexists; reflexivity.
    + rewrite Hx. eexists; reflexivity.
  - destruct (IH e1) as [s1 ->]; [assumption|]. destruct (IH e2) as [s2 ->]; [assumption|]. destruct (IH e3) as [s3 ->]; [assumption|].
    eexists; reflexivity.
  - destruct (Hl defaults) as [xs ->]; [assumption|]. destruct (IH e) as [s ->]; [assumption|]. eexists; reflexivity.
  - destruct (IH e H) as [s ->]. eexists; reflexivity.
  - discriminate.
Qed.

(* ---- what is false of the printer (known finding C19-F1) ---------------------------------------- *)
(* two different expressions are printed as the same text: a conditional expression is written
   without parentheses, so as an operand it re-parses with a different shape *)
Theorem print_injective_refuted : exists e1 e2, e1 <> e2 /\ print_expr e1 <> None /\ print_expr e1 = print_expr e2.
Proof.
  exists (PIfExp (PIfExp (PName (s2l "a")) (PName (s2l "b")) (PName (s2l "c"))) (PName (s2l "d")) (PName (s2l "e"))),
         (PIfExp (PName (s2l "a")) (PName (s2l "b")) (PIfExp (PName (s2l "c")) (PName (s2l "d")) (PName (s2l "e")))).
  split; [discriminate|]. split; vm_compute; [discriminate|reflexivity].
Qed.

(* operators of Python's grammar without a symbol in the tables make the printer raise *)
Theorem print_total_refuted : exists op, print_expr (PBin op (PName (s2l "a")) (PName (s2l "b"))) = None.
Proof. exists (s2l "Pow"). vm_compute. reflexivity. Qed.

(* a double-star mapping in a call or a dict display makes the printer raise *)
Theorem print_doublestar_refuted :
  print_expr (PCall (PName (s2l "f")) [] [(None, PName (s2l "d"))]) = None /\
  print_expr (PDict [(None, PName (s2l "d"))]) = None.
Proof. split; vm_compute; reflexivity. Qed.

(* keyword-only parameters of a lambda are not written at all *)
Theorem print_lambda_kwonly_refuted :
  print_expr (PLambda [s2l "x"] [] None [s2l "k"] None (PName (s2l "k"))) = print_expr (PLambda [s2l "x"] [] None [] None (PName (s2l "k"))).
Proof. vm_compute. reflexivity. Qed.
