(* Proofs/PyExprProofs.v -- the expression printer (printer part of Properties/C19.v) *)
From Coq Require Import Lia.
From MakoV Require Import Lib.Str Gen.AstUtil Model.PyExpr.
Open Scope N_scope.

Definition is_some {A} (o : option A) : bool := match o with Some _ => true | None => false end.

(* the sublanguage the printer has a rule and a symbol for *)
Fixpoint supported (fuel : nat) (e : pexpr) : bool :=
  match fuel with
  | O => false
  | S f =>
      let sup := supported f in
      let osup o := match o with Some x => sup x | None => true end in
      match e with
      | PName _ | PConst _ _ => true
      | PAttr v _ => sup v
      | PCall fn args kw => sup fn && forallb sup args && forallb (fun ka => sup (snd ka)) kw
      | PBin op l r => is_some (assocS op binop_symbols) && sup l && sup r
      | PBool op vs => is_some (assocS op boolop_symbols) && forallb sup vs
      | PCmp l rest => sup l && forallb (fun oe => is_some (assocS (fst oe) cmpop_symbols) && sup (snd oe)) rest
      | PUnary op x => is_some (assocS op unaryop_symbols) && sup x
      | PSub v sl => sup v && sup sl
      | PSlice lo up st => osup lo && osup up && osup st
      | PTuple l | PList l | PSet l => forallb sup l
      | PDict kv => forallb (fun kv0 => match fst kv0 with Some k => sup k | None => true end && sup (snd kv0)) kv
      | PIfExp b t o => sup b && sup t && sup o
      | PLambda _ defaults _ _ _ body => forallb sup defaults && sup body
      | PStarred x => sup x
      | PNamed t v => sup t && sup v
      | POther _ _ => false
      end
  end.

Lemma seq_opt_all {A B} (g : A -> option B) (ok : A -> bool) (l : list A) :
  (forall a, ok a = true -> exists b, g a = Some b) -> forallb ok l = true -> exists bs, seq_opt (map g l) = Some bs.
Proof.
  intros Hg. induction l as [|a r IH]; intros H; [exists []; reflexivity|].
  cbn [forallb] in H. apply andb_true_iff in H as [Ha Hr]. destruct (Hg a Ha) as [b Hb]. destruct (IH Hr) as [bs Hbs].
  exists (b :: bs). cbn [map seq_opt]. rewrite Hb, Hbs. reflexivity.
Qed.

(* on that sublanguage the printer never raises *)
Theorem print_total_on_supported : forall f e, supported f e = true -> exists s, print f e = Some s.
Proof.
  induction f as [|f IH]; intros e H; [discriminate|].
  assert (Hl : forall l, forallb (supported f) l = true -> exists xs, seq_opt (map (print f) l) = Some xs).
  { intros l. apply seq_opt_all. exact IH. }
  destruct e; cbn [supported] in H; cbn [print];
    repeat match goal with X : _ && _ = true |- _ => apply andb_true_iff in X as [? ?] end.
  - eexists; reflexivity.
  - eexists; reflexivity.
  - destruct (IH e H) as [s ->]. destruct e; try (eexists; reflexivity). destruct kind as [|[?|?|]]; eexists; reflexivity.
  - destruct (IH e) as [s ->]; [assumption|]. destruct (Hl args) as [xs ->]; [assumption|].
    match goal with |- exists _, match ?X with _ => _ end = _ => destruct (seq_opt_all
      (fun ka : option str * pexpr => match fst ka, print f (snd ka) with Some k, Some v => Some (k ++ [61] ++ v) | None, Some v => Some ([42; 42] ++ v) | _, None => None end)
      (fun ka => supported f (snd ka)) kw) as [ks Hk] end; [|assumption|].
    + intros [k v] Hkv. cbn [fst snd] in *. destruct (IH v Hkv) as [sv ->]. destruct k; eexists; reflexivity.
    + rewrite Hk. eexists; reflexivity.
  - destruct (assocS op binop_symbols); [|discriminate]. destruct (IH e1) as [s1 ->]; [assumption|].
    destruct (IH e2) as [s2 ->]; [assumption|]. eexists; reflexivity.
  - destruct (assocS op boolop_symbols); [|discriminate]. destruct (Hl vs) as [xs ->]; [assumption|]. eexists; reflexivity.
  - destruct (IH e) as [s ->]; [assumption|].
    destruct (seq_opt_all
      (fun oe : str * pexpr => match assocS (fst oe) cmpop_symbols, print f (snd oe) with Some sym, Some s0 => Some ([32] ++ sym ++ [32] ++ s0) | _, _ => None end)
      (fun oe => is_some (assocS (fst oe) cmpop_symbols) && supported f (snd oe)) rest) as [ps Hp]; [|assumption|].
    + intros [o v] Hov. cbn [fst snd] in *. apply andb_true_iff in Hov as [Hk1 Hk2]. destruct (assocS o cmpop_symbols); [|discriminate].
      destruct (IH v Hk2) as [sv ->]. eexists; reflexivity.
    + rewrite Hp. eexists; reflexivity.
  - destruct (assocS op unaryop_symbols); [|discriminate]. destruct (IH e) as [s ->]; [assumption|]. eexists; reflexivity.
  - (* subscript *)
    destruct (IH e1) as [s1 ->]; [assumption|]. destruct (IH e2) as [s2 Hs2]; [assumption|].
    destruct e2; try (rewrite Hs2; eexists; reflexivity).
    (* a tuple of subscripts: its items are printed one by one *)
    destruct l as [|x r]; [rewrite Hs2; eexists; reflexivity|].
    destruct f as [|f']; [discriminate|].
    match goal with X : supported (S f') (PTuple (x :: r)) = true |- _ => cbn [supported] in X end.
    assert (Hitems : exists xs, seq_opt (map (print (S f')) (x :: r)) = Some xs).
    { apply seq_opt_all with (ok := supported (S f')); [exact IH|].
      (* the items are supported with one more unit of fuel *)
      assert (Hmono : forall g e0, supported g e0 = true -> supported (S g) e0 = true).
      { clear. induction g as [|g IHg]; intros e0 H0; [discriminate|].
        assert (Hfl : forall l0, forallb (supported g) l0 = true -> forallb (supported (S g)) l0 = true).
        { intros l0 Hl0. rewrite forallb_forall in *. intros y Hy. apply IHg. apply Hl0. exact Hy. }
        destruct e0; cbn [supported] in H0 |- *; try exact H0;
          repeat match goal with X : _ && _ = true |- _ => apply andb_true_iff in X as [? ?] end;
          repeat (apply andb_true_iff; split); try assumption; try (apply IHg; assumption); try (apply Hfl; assumption).
        - match goal with X : forallb _ kw = true |- _ => rewrite forallb_forall in X |- *; intros y Hy; apply IHg; apply X; exact Hy end.
        - match goal with X : forallb _ rest = true |- _ => rewrite forallb_forall in X |- *; intros y Hy; specialize (X y Hy);
            apply andb_true_iff in X as [X1 X2]; apply andb_true_iff; split; [exact X1|apply IHg; exact X2] end.
        - destruct lo; [apply IHg; assumption|reflexivity].
        - destruct up; [apply IHg; assumption|reflexivity].
        - destruct st; [apply IHg; assumption|reflexivity].
        - match goal with X : forallb _ kv = true |- _ => rewrite forallb_forall in X |- *; intros y Hy; specialize (X y Hy);
            apply andb_true_iff in X as [X1 X2]; apply andb_true_iff; split; [destruct (fst y); [apply IHg; exact X1|reflexivity]|apply IHg; exact X2] end. }
      rewrite forallb_forall in *. intros y Hy. apply Hmono. match goal with X : forall _, In _ (x :: r) -> _ |- _ => apply X; exact Hy end. }
    destruct Hitems as [xs ->]. destruct xs as [|one [|two more]]; eexists; reflexivity.
  - assert (Ho : forall o, match o with Some x => supported f x | None => true end = true ->
                           exists s, match o with Some y => print f y | None => Some [] end = Some s).
    { intros [x|] Hx; [apply IH; exact Hx|eexists; reflexivity]. }
    destruct (Ho lo) as [a ->]; [assumption|]. destruct (Ho up) as [b ->]; [assumption|].
    destruct st as [s0|]; [|eexists; reflexivity].
    destruct (IH s0) as [c Hc]; [assumption|].
    destruct s0; try (rewrite Hc; eexists; reflexivity).
    destruct (str_eqb s (s2l "None")); eexists; reflexivity.
  - destruct (Hl l H) as [xs ->]. destruct xs as [|x [|y r]]; eexists; reflexivity.
  - destruct (Hl l H) as [xs ->]. eexists; reflexivity.
  - destruct (Hl l H) as [xs ->]. eexists; reflexivity.
  - destruct (seq_opt_all
      (fun kv0 : option pexpr * pexpr => match fst kv0 with
         | Some k => match print f k, print f (snd kv0) with Some a, Some b => Some (a ++ s2l ": " ++ b) | _, _ => None end
         | None => match print f (snd kv0) with Some b => Some ([42; 42] ++ b) | None => None end end)
      (fun kv0 => match fst kv0 with Some k => supported f k | None => true end && supported f (snd kv0)) kv) as [xs Hx]; [|assumption|].
    + intros [k v] Hkv. cbn [fst snd] in *. apply andb_true_iff in Hkv as [Hk1 Hk2]. destruct (IH v Hk2) as [sv ->].
      destruct k as [k|]; [destruct (IH k Hk1) as [sk ->]|]; eexists; reflexivity.
    + rewrite Hx. eexists; reflexivity.
  - destruct (IH e1) as [s1 ->]; [assumption|]. destruct (IH e2) as [s2 ->]; [assumption|]. destruct (IH e3) as [s3 ->]; [assumption|].
    eexists; reflexivity.
  - destruct (Hl defaults) as [xs ->]; [assumption|]. destruct (IH e) as [s ->]; [assumption|]. eexists; reflexivity.
  - destruct (IH e H) as [s ->]. eexists; reflexivity.
  - destruct (IH e1) as [s1 ->]; [assumption|]. destruct (IH e2) as [s2 ->]; [assumption|]. eexists; reflexivity.
  - discriminate.
Qed.

(* ---- what remains false of the printer (known finding C19-F1) -------------------------------------- *)
(* a lambda is written without parentheses (test_ast.test_expr_generate pins this text), so as the left operand of an
   operator it swallows what follows: the printed text below is, for Python, a lambda whose body is the sum *)
Example lambda_operand_is_not_parenthesised :
  print_expr (PBin (s2l "Add") (PLambda [] [] None [] None (PName (s2l "a"))) (PName (s2l "b"))) = Some (s2l "(lambda : a + b)").
Proof. vm_compute. reflexivity. Qed.

(* the histories of the repaired defects (fix commits for the printer): the operators, double-star mappings, conditional
   expressions, keyword-only parameters, numbers with attributes and tuples of subscripts are now printed *)
Example repaired_printer_cases :
  print_expr (PBin (s2l "Pow") (PName (s2l "a")) (PIfExp (PName (s2l "b")) (PName (s2l "c")) (PName (s2l "d")))) = Some (s2l "(a ** (b if c else d))") /\
  print_expr (PCall (PName (s2l "f")) [] [(None, PName (s2l "d"))]) = Some (s2l "f(**d)") /\
  print_expr (PDict [(None, PName (s2l "d"))]) = Some (s2l "{**d}") /\
  print_expr (PLambda [s2l "x"] [] None [s2l "k"] None (PName (s2l "k"))) = Some (s2l "lambda x, *, k: k") /\
  print_expr (PAttr (PConst (s2l "1") 1) (s2l "real")) = Some (s2l "(1).real") /\
  print_expr (PConst (s2l "inf") 1) = Some (s2l "1e309") /\ print_expr (PConst (s2l "'inf'") 0) = Some (s2l "'inf'") /\
  print_expr (PSub (PName (s2l "x")) (PTuple [PSlice (Some (PName (s2l "a"))) None None; PName (s2l "b")])) = Some (s2l "x[a:, b]").
Proof. vm_compute. repeat split. Qed.
