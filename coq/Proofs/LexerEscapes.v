(* Proofs/LexerEscapes.v -- the documented escapes of C01 as equations about [lex]:
   directive-free text is one Text node holding the text; a line-leading double percent yields
   one percent; a backslash before a newline removes that newline; a double-hash line, a doc
   section vanish with their terminators; the body of a text section is emitted verbatim. *)
From Coq Require Import Lia.
From MakoV Require Import Lib.Str Gen.Unicode Gen.LexerOrder Gen.Parsetree Model.Lexer Proofs.LexerProofs.
Open Scope N_scope.

(* a character that starts no directive and no escape *)
Definition plainc (c : N) : bool :=
  negb ((c =? cLT) || (c =? cDOLLAR) || (c =? cPCT) || (c =? cHASH) || (c =? cBSLASH)).
Definition plain (s : str) : bool := forallb plainc s.

(* what a successful lex writes *)
Definition output (s : str) : str := flat_map emit (fst (lex s)).

Lemma plainc_neq c x : plainc c = true -> plainc x = false -> (x =? c) = false.
Proof.
  intros Hc Hx. destruct (N.eqb_spec x c) as [->|]; [congruence|reflexivity].
Qed.

Lemma plain_no_prefix x lit s : plain s = true -> plainc x = false -> strip_prefix (x :: lit) s = None.
Proof.
  intros Hs Hx. destruct s as [|c r]; [reflexivity|]. cbn [strip_prefix].
  cbn [plain forallb] in Hs. apply andb_prop in Hs as [Hc _]. rewrite (plainc_neq c x Hc Hx). reflexivity.
Qed.

Lemma plain_no_start x lit s : plain s = true -> plainc x = false -> starts_with (x :: lit) s = false.
Proof. intros Hs Hx. unfold starts_with. rewrite plain_no_prefix; auto. Qed.

Lemma plain_app a b : plain (a ++ b) = plain a && plain b.
Proof. apply forallb_app. Qed.

Lemma span_plain_rest p s a b : plain s = true -> span p s = (a, b) -> plain b = true.
Proof.
  intros Hs E. apply span_eq in E. rewrite <- E, plain_app in Hs. apply andb_prop in Hs as [_ H]. exact H.
Qed.

Lemma plain_head_not c r x : plain (c :: r) = true -> plainc x = false -> (c =? x) = false.
Proof.
  intros Hs Hx. cbn [plain forallb] in Hs. apply andb_prop in Hs as [Hc _].
  rewrite N.eqb_sym. apply plainc_neq; assumption.
Qed.

(* ---- match_text on directive-free text: the whole of it ------------------------------------ *)
Lemma text_stop_plain prev s : plain s = true -> text_stop_here prev s = false.
Proof.
  intros Hs. unfold text_stop_here.
  rewrite (plain_no_start cDOLLAR [cLBRACE] s Hs eq_refl).
  rewrite (plain_no_start cLT [cPCT] s Hs eq_refl).
  rewrite (plain_no_start cLT [cSLASH; cPCT] s Hs eq_refl).
  rewrite !orb_false_r.
  destruct prev as [p|]; [|reflexivity].
  destruct (span is_blank s) as [bl r] eqn:E. pose proof (span_plain_rest _ _ _ _ Hs E) as Hr.
  destruct r as [|a r1]; [apply andb_false_r|].
  rewrite (plain_head_not a r1 cPCT Hr eq_refl), (plain_head_not a r1 cHASH Hr eq_refl).
  apply andb_false_r.
Qed.

Lemma scan_text_plain : forall s prev, plain s = true -> scan_text prev s = (s, [], []).
Proof.
  induction s as [|c r IH]; intros prev Hs.
  - cbn [scan_text]. rewrite text_stop_plain by exact Hs. reflexivity.
  - cbn [scan_text]. rewrite text_stop_plain by exact Hs.
    rewrite (plain_head_not c r cBSLASH Hs eq_refl).
    cbn [plain forallb] in Hs. apply andb_prop in Hs as [_ Hr].
    rewrite (IH (Some c) Hr). reflexivity.
Qed.

(* ---- the other matchers do not fire on directive-free text ------------------------------------ *)
Section PlainState.
  Variable st : lstate.
  Hypothesis Hp : plain (c_rest (cur st)) = true.

  Lemma m_expression_plain : m_expression st = NoMatch.
  Proof. unfold m_expression. rewrite (plain_no_prefix cDOLLAR [cLBRACE] _ Hp eq_refl). reflexivity. Qed.

  Lemma scan_control_line_plain : scan_control_line (c_rest (cur st)) = None.
  Proof.
    unfold scan_control_line. destruct (span is_blank (c_rest (cur st))) as [ind r0] eqn:E.
    pose proof (span_plain_rest _ _ _ _ Hp E) as Hr. destruct r0 as [|a r1]; [reflexivity|].
    rewrite (plain_head_not a r1 cPCT Hr eq_refl), (plain_head_not a r1 cHASH Hr eq_refl). reflexivity.
  Qed.

  Lemma m_control_line_plain : m_control_line st = NoMatch.
  Proof. unfold m_control_line. destruct (negb (at_bol (cur st))); [reflexivity|]. rewrite scan_control_line_plain. reflexivity. Qed.

  Lemma m_comment_plain : m_comment st = NoMatch.
  Proof.
    unfold m_comment, scan_doc. change (s2l "<%doc>") with (cLT :: s2l "%doc>").
    rewrite (plain_no_prefix cLT _ _ Hp eq_refl). reflexivity.
  Qed.

  Lemma m_tag_start_plain : m_tag_start st = NoMatch.
  Proof. unfold m_tag_start, scan_tag_start. rewrite (plain_no_prefix cLT [cPCT] _ Hp eq_refl). reflexivity. Qed.

  Lemma m_tag_end_plain : m_tag_end st = NoMatch.
  Proof. unfold m_tag_end, do_tag_end, scan_tag_end. rewrite (plain_no_prefix cLT [cSLASH; cPCT] _ Hp eq_refl). reflexivity. Qed.

  Lemma m_python_block_plain : m_python_block st = NoMatch.
  Proof. unfold m_python_block. rewrite (plain_no_prefix cLT [cPCT] _ Hp eq_refl). reflexivity. Qed.

  Lemma m_percent_plain : m_percent st = NoMatch.
  Proof.
    unfold m_percent. destruct (negb (at_bol (cur st))); [reflexivity|]. unfold scan_percent.
    destruct (span is_space (c_rest (cur st))) as [ws r] eqn:E. pose proof (span_plain_rest _ _ _ _ Hp E) as Hr.
    rewrite (plain_no_prefix cPCT [cPCT] _ Hr eq_refl). reflexivity.
  Qed.

  Lemma run_matcher_plain m : m <> MText -> run_matcher m st = NoMatch.
  Proof.
    intros Hm. destruct m; cbn [run_matcher];
      [apply m_comment_plain|apply m_control_line_plain|apply m_expression_plain|apply m_percent_plain
      |apply m_python_block_plain|apply m_tag_end_plain|apply m_tag_start_plain|congruence].
  Qed.

  Lemma cascade_plain ms : cascade ms st = if existsb (fun m => match m with MText => true | _ => false end) ms then m_text st else NoMatch.
  Proof.
    induction ms as [|m r IH]; [reflexivity|]. cbn [cascade existsb].
    destruct m; try (rewrite run_matcher_plain by discriminate; cbn [orb]; exact IH).
    cbn [run_matcher orb]. destruct (m_text st) eqn:E; try reflexivity.
    (* m_text = NoMatch: the tail cannot do better *)
    rewrite IH. destruct (existsb _ r); reflexivity.
  Qed.

  Lemma m_text_plain x r : c_rest (cur st) = x :: r ->
    m_text st = Continue (push_ev st (mk_event (cur st) (KText (x :: r)) (x :: r)) (advance (cur st) (x :: r) [])).
  Proof.
    intros Er. unfold m_text. rewrite scan_text_plain by exact Hp. rewrite Er. reflexivity.
  Qed.
End PlainState.

Lemma order_has_text : existsb (fun m => match m with MText => true | _ => false end) matcher_order = true.
Proof. vm_compute. reflexivity. Qed.

(* one step of the loop on a state whose remaining input is directive-free: a single Text
   event holding all of it, then the end *)
Lemma lex_loop_plain_tail fuel st x r :
  c_rest (cur st) = x :: r -> plain (x :: r) = true -> tags st = [] -> ctls st = [] ->
  lex_loop (S (S fuel)) st = (rev (mk_event (cur st) (KText (x :: r)) (x :: r) :: evs st), LexOk).
Proof.
  intros Er Hp Ht Hc. remember (S fuel) as g. cbn [lex_loop]. rewrite Er.
  rewrite cascade_plain by (rewrite Er; exact Hp). rewrite order_has_text.
  rewrite (m_text_plain st (eq_ind_r (fun z => plain z = true) Hp Er) x r Er).
  subst g. cbn [lex_loop push_ev cur advance c_rest]. unfold finish. cbn [tags ctls evs cur push_ev].
  rewrite Ht, Hc. reflexivity.
Qed.

Lemma scan_coding_plain s : plain s = true -> scan_coding s = None.
Proof.
  intros Hs. destruct s as [|c r]; [reflexivity|]. cbn [scan_coding].
  rewrite (plain_head_not c r cHASH Hs eq_refl). reflexivity.
Qed.

(* directive-free text is one Text node, at line 1 column 1, holding exactly the text *)
Theorem plain_text_one_node s : plain s = true -> s <> [] ->
  lex s = ([{| ev_kind := KText s; ev_src := s; ev_line := 1; ev_pos := 1 |}], LexOk).
Proof.
  intros Hs Hne. destruct s as [|x r]; [congruence|]. unfold lex, lex_start. rewrite scan_coding_plain by exact Hs.
  cbn [length]. rewrite (lex_loop_plain_tail _ _ x r); [reflexivity|reflexivity|exact Hs|reflexivity|reflexivity].
Qed.

Theorem plain_text_identity s : plain s = true -> output s = s /\ snd (lex s) = LexOk.
Proof.
  intros Hs. destruct s as [|x r].
  - split; reflexivity.
  - unfold output. rewrite plain_text_one_node by (auto; discriminate). cbn. rewrite app_nil_r. split; reflexivity.
Qed.

(* ---- output bookkeeping --------------------------------------------------------------------- *)
Definition out (st : lstate) : str := flat_map emit (rev (evs st)).

Lemma out_push st e c' : out (push_ev st e c') = out st ++ emit e.
Proof. unfold out, push_ev. cbn [evs rev]. rewrite flat_map_app. cbn [flat_map]. rewrite app_nil_r. reflexivity. Qed.

Lemma lex_loop_step f st st' x r :
  c_rest (cur st) = x :: r -> cascade matcher_order st = Continue st' -> lex_loop (S f) st = lex_loop f st'.
Proof. intros Er Ec. cbn [lex_loop]. rewrite Er, Ec. reflexivity. Qed.

(* the remaining input is directive-free: it is written as it stands and the lex succeeds *)
Lemma lex_loop_plain_out fuel st :
  plain (c_rest (cur st)) = true -> tags st = [] -> ctls st = [] ->
  flat_map emit (fst (lex_loop (S (S fuel)) st)) = out st ++ c_rest (cur st) /\ snd (lex_loop (S (S fuel)) st) = LexOk.
Proof.
  intros Hp Ht Hc. destruct (c_rest (cur st)) as [|x r] eqn:Er.
  - remember (S fuel) as g. cbn [lex_loop]. rewrite Er. unfold finish. rewrite Ht, Hc. cbn [fst snd].
    rewrite app_nil_r. split; reflexivity.
  - rewrite (lex_loop_plain_tail fuel st x r Er Hp Ht Hc). cbn [fst snd]. split; [|reflexivity].
    change (rev (mk_event (cur st) (KText (x :: r)) (x :: r) :: evs st)) with (rev (evs st) ++ [mk_event (cur st) (KText (x :: r)) (x :: r)]).
    rewrite flat_map_app. cbn [flat_map emit mk_event ev_kind]. rewrite app_nil_r. reflexivity.
Qed.

(* ---- which matchers can fire, by the first character ------------------------------------------ *)
Lemma blank_is_space c : is_blank c = true -> is_space c = true.
Proof.
  unfold is_blank. intros H. apply orb_prop in H as [H|H]; apply N.eqb_eq in H; subst c; vm_compute; reflexivity.
Qed.

Lemma span_none p c r : p c = false -> span p (c :: r) = ([], c :: r).
Proof. intros H. cbn [span]. rewrite H. reflexivity. Qed.

(* skipping characters of class [p] over directive-free text followed by [y] ends on a character that is neither
   a percent sign nor a hash *)
Lemma span_into p : forall a y w, plain a = true -> p y = false -> (y =? cPCT) = false -> (y =? cHASH) = false ->
  exists bl c r', span p (a ++ y :: w) = (bl, c :: r') /\ (c =? cPCT) = false /\ (c =? cHASH) = false.
Proof.
  induction a as [|c a IH]; intros y w Ha Hy H1 H2.
  - cbn [app]. rewrite span_none by exact Hy. exists [], y, w. auto.
  - cbn [app span]. destruct (p c) eqn:Epc.
    + cbn [plain forallb] in Ha. apply andb_prop in Ha as [_ Ha].
      destruct (IH y w Ha Hy H1 H2) as (bl & c' & r' & E & G1 & G2). rewrite E. exists (c :: bl), c', r'. auto.
    + exists [], c, (a ++ y :: w). split; [reflexivity|].
      split; [exact (plain_head_not c a cPCT Ha eq_refl)|exact (plain_head_not c a cHASH Ha eq_refl)].
Qed.

Section HeadState.
  Variable st : lstate.
  Variables (a : str) (y : N) (w : str).
  Hypothesis Er : c_rest (cur st) = a ++ y :: w.
  Hypothesis Ha : plain a = true.
  Hypothesis Hy : is_space y = false.
  Hypothesis Hpct : (y =? cPCT) = false.
  Hypothesis Hhash : (y =? cHASH) = false.
  Hypothesis Hdollar : (hd y a =? cDOLLAR) = false.
  Hypothesis Hlt : (hd y a =? cLT) = false.

  Lemma head_rest : c_rest (cur st) = hd y a :: tl (a ++ y :: w).
  Proof using Er. rewrite Er. clear. destruct a; reflexivity. Qed.

  Lemma head_no_prefix x lit : (hd y a =? x) = false -> strip_prefix (x :: lit) (c_rest (cur st)) = None.
  Proof. intros H. rewrite head_rest. cbn [strip_prefix]. rewrite N.eqb_sym, H. reflexivity. Qed.

  Lemma m_expression_head : m_expression st = NoMatch.
  Proof. unfold m_expression. rewrite (head_no_prefix cDOLLAR [cLBRACE] Hdollar). reflexivity. Qed.

  Lemma blank_y : is_blank y = false.
  Proof using Hy. destruct (is_blank y) eqn:E; [|reflexivity]. apply blank_is_space in E. rewrite Hy in E. discriminate E. Qed.

  Lemma m_control_line_head : m_control_line st = NoMatch.
  Proof.
    unfold m_control_line. destruct (negb (at_bol (cur st))); [reflexivity|]. unfold scan_control_line. rewrite Er.
    destruct (span_into is_blank a y w Ha blank_y Hpct Hhash) as (bl & c & r' & E & G1 & G2). rewrite E, G1, G2. reflexivity.
  Qed.

  Lemma m_comment_head : m_comment st = NoMatch.
  Proof.
    unfold m_comment, scan_doc. change (s2l "<%doc>") with (cLT :: s2l "%doc>").
    rewrite (head_no_prefix cLT _ Hlt). reflexivity.
  Qed.

  Lemma m_tag_start_head : m_tag_start st = NoMatch.
  Proof. unfold m_tag_start, scan_tag_start. rewrite (head_no_prefix cLT [cPCT] Hlt). reflexivity. Qed.

  Lemma m_tag_end_head : m_tag_end st = NoMatch.
  Proof. unfold m_tag_end, do_tag_end, scan_tag_end. rewrite (head_no_prefix cLT [cSLASH; cPCT] Hlt). reflexivity. Qed.

  Lemma m_python_block_head : m_python_block st = NoMatch.
  Proof. unfold m_python_block. rewrite (head_no_prefix cLT [cPCT] Hlt). reflexivity. Qed.

  Lemma m_percent_head : m_percent st = NoMatch.
  Proof.
    unfold m_percent. destruct (negb (at_bol (cur st))); [reflexivity|]. unfold scan_percent. rewrite Er.
    destruct (span_into is_space a y w Ha Hy Hpct Hhash) as (bl & c & r' & E & G1 & G2). rewrite E.
    cbn [strip_prefix]. rewrite N.eqb_sym, G1. reflexivity.
  Qed.

  Lemma cascade_head : cascade matcher_order st = m_text st.
  Proof.
    unfold matcher_order. cbn [cascade run_matcher].
    rewrite ?m_expression_head, ?m_control_line_head, ?m_comment_head, ?m_tag_start_head, ?m_tag_end_head,
            ?m_python_block_head, ?m_percent_head.
    destruct (m_text st); reflexivity.
  Qed.
End HeadState.

(* ---- match_text up to the next directive ------------------------------------------------------ *)
Definition bol_stop (s : str) : bool :=
  let (_, r) := span is_blank s in
  match r with
  | a :: r1 => (a =? cPCT) || ((a =? cHASH) && match r1 with b :: _ => b =? cHASH | [] => false end)
  | [] => false
  end.

Lemma text_stop_alt prev s :
  text_stop_here prev s =
  (match prev with Some p => (p =? LF) && bol_stop s | None => false end)
  || starts_with [cDOLLAR; cLBRACE] s || starts_with [cLT; cPCT] s || starts_with [cLT; cSLASH; cPCT] s.
Proof. reflexivity. Qed.

Lemma bol_stop_plain_app : forall s rest, plain s = true -> bol_stop rest = false -> bol_stop (s ++ rest) = false.
Proof.
  induction s as [|c s IH]; intros rest Hs Hr; [exact Hr|].
  unfold bol_stop. cbn [app span]. destruct (is_blank c) eqn:Eb.
  - cbn [plain forallb] in Hs. apply andb_prop in Hs as [_ Hs]. specialize (IH rest Hs Hr). unfold bol_stop in IH.
    destruct (span is_blank (s ++ rest)) as [bl r]. exact IH.
  - rewrite (plain_head_not c s cPCT Hs eq_refl), (plain_head_not c s cHASH Hs eq_refl). reflexivity.
Qed.

(* directive-free text that ends in a non-blank character hides whatever follows it from the line-start test *)
Lemma bol_stop_plain_nb : forall s z rest, plain (s ++ [z]) = true -> is_blank z = false -> bol_stop ((s ++ [z]) ++ rest) = false.
Proof.
  induction s as [|c s IH]; intros z rest Hs Hz.
  - unfold bol_stop. cbn [app span]. rewrite Hz.
    rewrite (plain_head_not z [] cPCT Hs eq_refl), (plain_head_not z [] cHASH Hs eq_refl). reflexivity.
  - unfold bol_stop. cbn [app span]. destruct (is_blank c) eqn:Eb.
    + cbn [app plain forallb] in Hs. apply andb_prop in Hs as [_ Hs]. specialize (IH z rest Hs Hz). unfold bol_stop in IH.
      destruct (span is_blank ((s ++ [z]) ++ rest)) as [bl r]. exact IH.
    + cbn [app] in Hs. rewrite (plain_head_not c _ cPCT Hs eq_refl), (plain_head_not c _ cHASH Hs eq_refl). reflexivity.
Qed.

Lemma head_no_start x lit c r : (c =? x) = false -> starts_with (x :: lit) (c :: r) = false.
Proof. intros H. unfold starts_with. cbn [strip_prefix]. rewrite N.eqb_sym, H. reflexivity. Qed.

Lemma text_stop_plain_head prev c r : plainc c = true -> bol_stop (c :: r) = false -> text_stop_here prev (c :: r) = false.
Proof.
  intros Hc Hb. rewrite text_stop_alt, Hb.
  assert (Hh : plain [c] = true) by (cbn; rewrite Hc; reflexivity).
  rewrite (head_no_start cDOLLAR _ c r (plain_head_not c [] cDOLLAR Hh eq_refl)).
  rewrite !(head_no_start cLT _ c r (plain_head_not c [] cLT Hh eq_refl)).
  destruct prev; [rewrite andb_false_r|]; reflexivity.
Qed.

(* ... up to a stop condition that follows a non-blank character *)
Lemma scan_text_upto_stop : forall a prev z rest,
  plain (a ++ [z]) = true -> is_blank z = false -> text_stop_here (Some z) rest = true ->
  scan_text prev ((a ++ [z]) ++ rest) = (a ++ [z], [], rest).
Proof.
  induction a as [|c a IH]; intros prev z rest Hp Hz Hstop.
  - cbn [app scan_text]. change (z :: rest) with (([] ++ [z]) ++ rest) at 1.
    pose proof (bol_stop_plain_nb [] z rest Hp Hz) as Hb. cbn [app] in Hb |- *.
    rewrite (text_stop_plain_head prev z rest) by (try exact Hb; cbn in Hp; rewrite andb_true_r in Hp; exact Hp).
    rewrite (plain_head_not z [] cBSLASH Hp eq_refl).
    destruct rest as [|x r]; cbn [scan_text]; rewrite Hstop; reflexivity.
  - cbn [app scan_text].
    pose proof (bol_stop_plain_nb (c :: a) z rest Hp Hz) as Hb. cbn [app] in Hb, Hp.
    assert (Hc : plainc c = true) by (cbn [plain forallb] in Hp; apply andb_prop in Hp as [H _]; exact H).
    rewrite (text_stop_plain_head prev c _ Hc Hb).
    rewrite (plain_head_not c _ cBSLASH Hp eq_refl).
    cbn [plain forallb] in Hp. apply andb_prop in Hp as [_ Hp].
    rewrite (IH (Some c) z rest Hp Hz Hstop). reflexivity.
Qed.

(* ... up to a backslash that is directly followed by a newline *)
Lemma bol_stop_bslash w : bol_stop (cBSLASH :: w) = false.
Proof. reflexivity. Qed.

Lemma scan_text_upto_cont : forall a prev w nl t,
  plain a = true -> eat_newline w = Some (nl, t) ->
  scan_text prev (a ++ cBSLASH :: w) = (a, cBSLASH :: nl, t).
Proof.
  induction a as [|c a IH]; intros prev w nl t Hp Hw.
  - cbn [app scan_text].
    assert (Hs : text_stop_here prev (cBSLASH :: w) = false).
    { rewrite text_stop_alt, bol_stop_bslash. destruct prev; [rewrite andb_false_r|]; reflexivity. }
    rewrite Hs.
    rewrite N.eqb_refl, Hw. reflexivity.
  - cbn [app scan_text].
    assert (Hb : bol_stop (c :: a ++ cBSLASH :: w) = false).
    { change (c :: a ++ cBSLASH :: w) with ((c :: a) ++ cBSLASH :: w). apply bol_stop_plain_app; [exact Hp|apply bol_stop_bslash]. }
    assert (Hc : plainc c = true) by (cbn [plain forallb] in Hp; apply andb_prop in Hp as [H _]; exact H).
    rewrite (text_stop_plain_head prev c _ Hc Hb).
    rewrite (plain_head_not c a cBSLASH Hp eq_refl).
    cbn [plain forallb] in Hp. apply andb_prop in Hp as [_ Hp].
    rewrite (IH (Some c) w nl t Hp Hw). reflexivity.
Qed.

(* ---- single steps of the loop ---------------------------------------------------------------- *)
Definition quiet (st : lstate) : Prop := tags st = [] /\ ctls st = [].

Lemma lex_loop_plain_out' fuel st : (2 <= fuel)%nat ->
  plain (c_rest (cur st)) = true -> quiet st ->
  flat_map emit (fst (lex_loop fuel st)) = out st ++ c_rest (cur st) /\ snd (lex_loop fuel st) = LexOk.
Proof.
  intros Hf Hp [Ht Hc]. destruct fuel as [|[|f]]; [lia|lia|]. apply lex_loop_plain_out; assumption.
Qed.

Lemma m_expression_first st c r : c_rest (cur st) = c :: r -> (c =? cDOLLAR) = false -> m_expression st = NoMatch.
Proof. intros Er H. unfold m_expression. rewrite Er. cbn [strip_prefix]. rewrite N.eqb_sym, H. reflexivity. Qed.

Lemma lt_matchers_first st c r : c_rest (cur st) = c :: r -> (c =? cLT) = false ->
  m_comment st = NoMatch /\ m_tag_start st = NoMatch /\ m_tag_end st = NoMatch /\ m_python_block st = NoMatch.
Proof.
  intros Er H. unfold m_comment, scan_doc, m_tag_start, scan_tag_start, m_tag_end, do_tag_end, scan_tag_end, m_python_block.
  rewrite Er. change (s2l "<%doc>") with (cLT :: s2l "%doc>"). cbn [strip_prefix]. rewrite N.eqb_sym, H. auto.
Qed.

(* text up to a backslash-newline: the text is written, the backslash and the newline are not *)
Lemma m_text_cont st a w nl t :
  c_rest (cur st) = a ++ cBSLASH :: w -> plain a = true -> eat_newline w = Some (nl, t) ->
  exists st', m_text st = Continue st' /\ c_rest (cur st') = t /\ tags st' = tags st /\ ctls st' = ctls st /\ out st' = out st ++ a.
Proof.
  intros Er Ha Hw. unfold m_text. rewrite Er, (scan_text_upto_cont a _ w nl t Ha Hw).
  destruct a as [|c a].
  - eexists. split; [reflexivity|]. cbn [push_ev cur advance c_rest tags ctls]. rewrite out_push. cbn. rewrite app_nil_r. auto.
  - eexists. split; [reflexivity|]. cbn [push_ev cur advance c_rest tags ctls]. rewrite !out_push. cbn. rewrite app_nil_r. auto.
Qed.

(* text up to a stop condition: one Text event *)
Lemma m_text_stop st a z rest :
  c_rest (cur st) = (a ++ [z]) ++ rest -> plain (a ++ [z]) = true -> is_blank z = false -> text_stop_here (Some z) rest = true ->
  exists st', m_text st = Continue st' /\ c_rest (cur st') = rest /\ c_prev (cur st') = Some z /\
              tags st' = tags st /\ ctls st' = ctls st /\ out st' = out st ++ a ++ [z].
Proof.
  intros Er Hp Hz Hs. unfold m_text. rewrite Er, (scan_text_upto_stop a _ z rest Hp Hz Hs).
  destruct (a ++ [z]) as [|c l] eqn:E; [destruct a; discriminate|].
  eexists. split; [reflexivity|]. cbn [push_ev cur advance c_rest c_prev tags ctls]. rewrite out_push. cbn [emit mk_event ev_kind].
  repeat split. rewrite <- E. unfold last_char. rewrite rev_unit. reflexivity.
Qed.

Lemma scan_coding_head c r : (c =? cHASH) = false -> scan_coding (c :: r) = None.
Proof. intros H. cbn [scan_coding]. rewrite H. reflexivity. Qed.

Lemma hd_plain_or y a x : plain a = true -> plainc x = false -> (y =? x) = false -> (hd y a =? x) = false.
Proof. intros Ha Hx Hy. destruct a as [|c a]; [exact Hy|]. cbn [hd]. exact (plain_head_not c a x Ha Hx). Qed.

(* ---- a backslash directly before a newline removes that newline ------------------------------- *)
Theorem continuation_removes_newline a w nl t :
  plain a = true -> plain t = true -> eat_newline w = Some (nl, t) ->
  output (a ++ cBSLASH :: w) = a ++ t /\ snd (lex (a ++ cBSLASH :: w)) = LexOk.
Proof.
  intros Ha Ht Hw. unfold output, lex, lex_start.
  assert (Hcod : scan_coding (a ++ cBSLASH :: w) = None).
  { destruct a as [|c a]; [reflexivity|]. cbn [app]. apply scan_coding_head. exact (plain_head_not c a cHASH Ha eq_refl). }
  rewrite Hcod.
  set (st0 := {| cur := {| c_rest := a ++ cBSLASH :: w; c_off := 0; c_line := 1; c_colbase := 0; c_prev := None |};
                 tags := []; ctls := []; evs := [] |}).
  assert (Er : c_rest (cur st0) = a ++ cBSLASH :: w) by reflexivity.
  destruct (m_text_cont st0 a w nl t Er Ha Hw) as (st1 & Hm & Hr1 & Ht1 & Hc1 & Ho1).
  assert (Hcas : cascade matcher_order st0 = Continue st1).
  { rewrite (cascade_head st0 a cBSLASH w Er Ha); try reflexivity; try exact Hm.
    - apply hd_plain_or; [exact Ha|reflexivity|reflexivity].
    - apply hd_plain_or; [exact Ha|reflexivity|reflexivity]. }
  assert (Hne : exists x r, c_rest (cur st0) = x :: r) by (rewrite Er; destruct a; eexists; eexists; reflexivity).
  destruct Hne as (x & r & Hxr).
  rewrite (lex_loop_step _ st0 st1 x r Hxr Hcas).
  assert (Hlen : (2 <= S (length (a ++ cBSLASH :: w)))%nat).
  { rewrite app_length. cbn [length]. apply eat_newline_eq in Hw as [Hw Hnl]. rewrite <- Hw, app_length.
    destruct nl; [congruence|cbn [length]; lia]. }
  destruct (lex_loop_plain_out' _ st1 Hlen) as [Ho Hk]; [rewrite Hr1; exact Ht|split; [rewrite Ht1|rewrite Hc1]; reflexivity|].
  rewrite Ho, Hk, Ho1, Hr1. split; reflexivity.
Qed.

(* ---- text, a newline, then a construct at the start of the next line ---------------------------- *)
(* the first step of lexing  x a LF rest : one Text event for the first line(s), cursor at a line start *)
Lemma prefix_step x a rest fuel :
  plain (x :: a) = true -> is_space x = false -> text_stop_here (Some LF) rest = true ->
  exists st1, lex_loop (S fuel) (lex_start ((x :: a ++ [LF]) ++ rest)) = lex_loop fuel st1 /\
              c_rest (cur st1) = rest /\ at_bol (cur st1) = true /\ quiet st1 /\ out st1 = x :: a ++ [LF].
Proof.
  intros Hp Hx Hs. unfold lex_start.
  change ((x :: a ++ [LF]) ++ rest) with (x :: (a ++ [LF]) ++ rest) at 1.
  rewrite (scan_coding_head x _ (plain_head_not x a cHASH Hp eq_refl)).
  set (st0 := {| cur := {| c_rest := (x :: a ++ [LF]) ++ rest; c_off := 0; c_line := 1; c_colbase := 0; c_prev := None |};
                 tags := []; ctls := []; evs := [] |}).
  assert (Hp' : plain ((x :: a) ++ [LF]) = true) by (rewrite plain_app, Hp; reflexivity).
  assert (Er : c_rest (cur st0) = ((x :: a) ++ [LF]) ++ rest) by reflexivity.
  destruct (m_text_stop st0 (x :: a) LF rest Er Hp' eq_refl Hs) as (st1 & Hm & Hr1 & Hpv & Ht1 & Hc1 & Ho1).
  exists st1.
  assert (Hcas : cascade matcher_order st0 = Continue st1).
  { assert (Er0 : c_rest (cur st0) = [] ++ x :: (a ++ [LF]) ++ rest) by reflexivity.
    rewrite (cascade_head st0 [] x _ Er0 eq_refl Hx); try exact Hm; cbn [hd].
    - exact (plain_head_not x a cPCT Hp eq_refl).
    - exact (plain_head_not x a cHASH Hp eq_refl).
    - exact (plain_head_not x a cDOLLAR Hp eq_refl).
    - exact (plain_head_not x a cLT Hp eq_refl). }
  split; [apply (lex_loop_step fuel st0 st1 x ((a ++ [LF]) ++ rest)); [reflexivity|exact Hcas]|].
  split; [exact Hr1|]. split; [unfold at_bol; rewrite Hpv; reflexivity|].
  split; [split; [rewrite Ht1|rewrite Hc1]; reflexivity|]. rewrite Ho1. reflexivity.
Qed.

(* ---- a line-leading double percent yields one percent ------------------------------------------ *)
Lemma percent_step st t :
  at_bol (cur st) = true -> c_rest (cur st) = cPCT :: cPCT :: t -> plain t = true ->
  exists st', cascade matcher_order st = Continue st' /\ c_rest (cur st') = t /\ tags st' = tags st /\ ctls st' = ctls st /\
              out st' = out st ++ [cPCT].
Proof.
  intros Hb Er Ht.
  destruct (lt_matchers_first st cPCT (cPCT :: t) Er eq_refl) as (H1 & H2 & H3 & H4).
  assert (Hcl : m_control_line st = NoMatch).
  { unfold m_control_line. rewrite Hb, Er. reflexivity. }
  assert (Hsp : span (fun x => x =? cPCT) t = ([], t)).
  { destruct t as [|c t']; [reflexivity|]. apply span_none. exact (plain_head_not c t' cPCT Ht eq_refl). }
  assert (Hpc : scan_percent (cPCT :: cPCT :: t) = Some ([], [], [cPCT; cPCT], t)).
  { unfold scan_percent. rewrite (span_none is_space cPCT (cPCT :: t) space_not_pct). cbn [strip_prefix].
    rewrite N.eqb_refl, Hsp. reflexivity. }
  eexists. split.
  - unfold matcher_order. cbn [cascade run_matcher].
    rewrite ?(m_expression_first st cPCT (cPCT :: t) Er eq_refl), ?Hcl, ?H1, ?H2, ?H3, ?H4.
    unfold m_percent. rewrite Hb, Er, Hpc. cbn [negb]. reflexivity.
  - cbn [push_ev cur advance c_rest tags ctls]. rewrite out_push. cbn. auto.
Qed.

Lemma stop_at_percent t : text_stop_here (Some LF) (cPCT :: t) = true.
Proof. reflexivity. Qed.

Theorem percent_escape_after_line x a t :
  plain (x :: a) = true -> is_space x = false -> plain t = true ->
  let s := (x :: a ++ [LF]) ++ cPCT :: cPCT :: t in
  output s = (x :: a ++ [LF]) ++ cPCT :: t /\ snd (lex s) = LexOk.
Proof.
  intros Hp Hx Ht s. unfold output, lex.
  destruct (prefix_step x a (cPCT :: cPCT :: t) (S (length s)) Hp Hx (stop_at_percent _)) as (st1 & Hl & Hr1 & Hb1 & [Ht1 Hc1] & Ho1).
  fold s in Hl. rewrite Hl.
  destruct (percent_step st1 t Hb1 Hr1 Ht) as (st2 & Hcas & Hr2 & Ht2 & Hc2 & Ho2).
  rewrite (lex_loop_step _ st1 st2 _ _ Hr1 Hcas).
  assert (Hlen : (2 <= length s)%nat) by (unfold s; rewrite app_length; cbn [length]; lia).
  destruct (lex_loop_plain_out' _ st2 Hlen) as [Ho Hk]; [rewrite Hr2; exact Ht|split; congruence|].
  rewrite Ho, Hk, Ho2, Ho1, Hr2. split; [|reflexivity]. rewrite <- !app_assoc. reflexivity.
Qed.

Theorem percent_escape_at_start t :
  plain t = true -> output (cPCT :: cPCT :: t) = cPCT :: t /\ snd (lex (cPCT :: cPCT :: t)) = LexOk.
Proof.
  intros Ht. unfold output, lex, lex_start. rewrite (scan_coding_head cPCT _ eq_refl).
  set (st0 := {| cur := {| c_rest := cPCT :: cPCT :: t; c_off := 0; c_line := 1; c_colbase := 0; c_prev := None |};
                 tags := []; ctls := []; evs := [] |}).
  destruct (percent_step st0 t eq_refl eq_refl Ht) as (st2 & Hcas & Hr2 & Ht2 & Hc2 & Ho2).
  rewrite (lex_loop_step _ st0 st2 cPCT (cPCT :: t) eq_refl Hcas).
  assert (Hlen : (2 <= S (length (cPCT :: cPCT :: t)))%nat) by (cbn [length]; lia).
  destruct (lex_loop_plain_out' _ st2 Hlen) as [Ho Hk]; [rewrite Hr2; exact Ht|split; [rewrite Ht2|rewrite Hc2]; reflexivity|].
  rewrite Ho, Hk, Ho2, Hr2. split; reflexivity.
Qed.

(* ---- a double-hash line vanishes together with its terminator ---------------------------------- *)
Definition linetext (s : str) : bool := forallb (fun x => negb ((x =? cBSLASH) || (x =? CR) || (x =? LF))) s.

Lemma scan_ctl_items_line : forall c acc lastc nlw,
  linetext c = true -> (exists nl t, eat_newline nlw = Some (nl, t)) ->
  scan_ctl_items (c ++ nlw) acc lastc O = (acc ++ c, nlw, lastc).
Proof.
  induction c as [|x c IH]; intros acc lastc nlw Hc Hn.
  - cbn [app]. rewrite app_nil_r. destruct Hn as (nl & t & Hn). destruct nlw as [|y r]; [discriminate|].
    cbn [scan_ctl_items]. cbn [eat_newline] in Hn.
    destruct (y =? LF) eqn:E1.
    + apply N.eqb_eq in E1. subst y. reflexivity.
    + destruct (y =? CR) eqn:E2; [|discriminate]. apply N.eqb_eq in E2. subst y. reflexivity.
  - cbn [app scan_ctl_items]. cbn [linetext forallb] in Hc. apply andb_prop in Hc as [Hx Hc].
    apply negb_true_iff in Hx. apply orb_false_elim in Hx as [Hx H3]. apply orb_false_elim in Hx as [H1 H2].
    rewrite H1, H2, H3. cbn [orb]. rewrite (IH (acc ++ [x]) lastc nlw Hc Hn), <- app_assoc. reflexivity.
Qed.

Lemma linetext_app a b : linetext (a ++ b) = linetext a && linetext b.
Proof. apply forallb_app. Qed.

Lemma newline_head nlw nl t : eat_newline nlw = Some (nl, t) -> exists y r, nlw = y :: r /\ is_blank y = false.
Proof.
  destruct nlw as [|y r]; [discriminate|]. cbn [eat_newline]. intros H. exists y, r. split; [reflexivity|].
  destruct (y =? LF) eqn:E1; [apply N.eqb_eq in E1; subst y; reflexivity|].
  destruct (y =? CR) eqn:E2; [apply N.eqb_eq in E2; subst y; reflexivity|discriminate].
Qed.

Lemma span_blank_line : forall c nlw nl t, eat_newline nlw = Some (nl, t) ->
  span is_blank (c ++ nlw) = (fst (span is_blank c), snd (span is_blank c) ++ nlw).
Proof.
  induction c as [|x c IH]; intros nlw nl t Hn.
  - destruct (newline_head nlw nl t Hn) as (y & r & -> & Hy). cbn [app span fst snd]. rewrite Hy. reflexivity.
  - cbn [app span]. destruct (is_blank x); [|reflexivity].
    rewrite (IH nlw nl t Hn). destruct (span is_blank c). reflexivity.
Qed.

Lemma hash_comment_step st c nlw nl t :
  at_bol (cur st) = true -> c_rest (cur st) = cHASH :: cHASH :: c ++ nlw -> linetext c = true -> eat_newline nlw = Some (nl, t) ->
  exists st', cascade matcher_order st = Continue st' /\ c_rest (cur st') = t /\ tags st' = tags st /\ ctls st' = ctls st /\
              out st' = out st.
Proof.
  intros Hb Er Hc Hn.
  assert (Hscl : exists lead text, scan_control_line (cHASH :: cHASH :: c ++ nlw) = Some (CtlHash, lead, text, nl, t)).
  { unfold scan_control_line. rewrite (span_none is_blank cHASH _ eq_refl).
    replace (cHASH =? cPCT) with false by reflexivity. rewrite N.eqb_refl.
    destruct (span is_blank (c ++ nlw)) as [bl r2] eqn:E.
    (* the blanks after the operator are blanks of the comment text itself *)
    assert (Hsplit : exists c', c = bl ++ c' /\ r2 = c' ++ nlw).
    { rewrite (span_blank_line c nlw nl t Hn) in E. injection E as <- <-.
      exists (snd (span is_blank c)). split; [symmetry; apply span_split|reflexivity]. }
    destruct Hsplit as (c' & -> & ->).
    rewrite linetext_app in Hc. apply andb_prop in Hc as [_ Hc'].
    rewrite (scan_ctl_items_line c' [] None nlw Hc' (ex_intro _ nl (ex_intro _ t Hn))).
    cbn [app]. destruct nlw as [|y r]; [discriminate|]. rewrite Hn. eexists. eexists. reflexivity. }
  destruct Hscl as (lead & text & Hscl).
  eexists. split.
  - unfold matcher_order. cbn [cascade run_matcher].
    rewrite ?(m_expression_first st cHASH _ Er eq_refl).
    unfold m_control_line. rewrite Hb, Er, Hscl. cbn [negb]. reflexivity.
  - cbn [push_ev cur advance c_rest tags ctls]. rewrite out_push. cbn [emit mk_event ev_kind]. rewrite app_nil_r. auto.
Qed.

Lemma stop_at_hashes t : text_stop_here (Some LF) (cHASH :: cHASH :: t) = true.
Proof. reflexivity. Qed.

Theorem hash_comment_vanishes x a c nlw nl t :
  plain (x :: a) = true -> is_space x = false -> linetext c = true -> eat_newline nlw = Some (nl, t) -> plain t = true ->
  let s := (x :: a ++ [LF]) ++ cHASH :: cHASH :: c ++ nlw in
  output s = (x :: a ++ [LF]) ++ t /\ snd (lex s) = LexOk.
Proof.
  intros Hp Hx Hc Hn Ht s. unfold output, lex.
  destruct (prefix_step x a (cHASH :: cHASH :: c ++ nlw) (S (length s)) Hp Hx (stop_at_hashes _)) as (st1 & Hl & Hr1 & Hb1 & [Ht1 Hc1] & Ho1).
  fold s in Hl. rewrite Hl.
  destruct (hash_comment_step st1 c nlw nl t Hb1 Hr1 Hc Hn) as (st2 & Hcas & Hr2 & Ht2 & Hc2 & Ho2).
  rewrite (lex_loop_step _ st1 st2 _ _ Hr1 Hcas).
  assert (Hlen : (2 <= length s)%nat) by (unfold s; rewrite app_length; cbn [length]; lia).
  destruct (lex_loop_plain_out' _ st2 Hlen) as [Ho Hk]; [rewrite Hr2; exact Ht|split; congruence|].
  rewrite Ho, Hk, Ho2, Ho1, Hr2. split; reflexivity.
Qed.

(* ---- a doc section vanishes ---------------------------------------------------------------------- *)
Definition nolt (s : str) : bool := forallb (fun x => negb (x =? cLT)) s.

Lemma starts_with_app p r : starts_with p (p ++ r) = true.
Proof. unfold starts_with. rewrite strip_prefix_app. reflexivity. Qed.

Lemma find_lit_here lit s : starts_with lit s = true -> find_lit lit s = Some ([], s).
Proof. intros H. destruct s; cbn [find_lit]; rewrite H; reflexivity. Qed.

Lemma find_lit_nolt lit' : forall body rest, nolt body = true ->
  find_lit (cLT :: lit') (body ++ (cLT :: lit') ++ rest) = Some (body, (cLT :: lit') ++ rest).
Proof.
  induction body as [|c body IH]; intros rest Hb.
  - cbn [app]. apply find_lit_here. apply (starts_with_app (cLT :: lit') rest).
  - cbn [nolt forallb] in Hb. apply andb_prop in Hb as [Hc Hb]. apply negb_true_iff in Hc.
    change ((c :: body) ++ (cLT :: lit') ++ rest) with (c :: (body ++ (cLT :: lit') ++ rest)).
    cbn [find_lit]. rewrite (head_no_start cLT lit' c _ Hc). rewrite (IH rest Hb). reflexivity.
Qed.

Lemma m_control_line_first st c r :
  c_rest (cur st) = c :: r -> is_blank c = false -> (c =? cPCT) = false -> (c =? cHASH) = false -> m_control_line st = NoMatch.
Proof.
  intros Er Hb H1 H2. unfold m_control_line. destruct (negb (at_bol (cur st))); [reflexivity|].
  unfold scan_control_line. rewrite Er, (span_none is_blank c r Hb), H1, H2. reflexivity.
Qed.

Lemma doc_step st body t :
  c_rest (cur st) = s2l "<%doc>" ++ body ++ s2l "</%doc>" ++ t -> nolt body = true ->
  exists st', cascade matcher_order st = Continue st' /\ c_rest (cur st') = t /\ tags st' = tags st /\ ctls st' = ctls st /\
              out st' = out st.
Proof.
  intros Er Hb.
  assert (Er' : c_rest (cur st) = [] ++ cLT :: (s2l "%doc>" ++ body ++ s2l "</%doc>" ++ t)) by (rewrite Er; reflexivity).
  assert (Hsd : scan_doc (c_rest (cur st)) = Some (body, s2l "<%doc>" ++ body ++ s2l "</%doc>", t)).
  { unfold scan_doc. rewrite Er, strip_prefix_app.
    change (s2l "</%doc>") with (cLT :: s2l "/%doc>"). rewrite (find_lit_nolt _ body t Hb), strip_prefix_app. reflexivity. }
  eexists. split.
  - unfold matcher_order. cbn [cascade run_matcher].
    rewrite ?(m_expression_first st cLT _ Er' eq_refl).
    rewrite ?(m_control_line_first st cLT _ Er' eq_refl eq_refl eq_refl).
    unfold m_comment. rewrite Hsd. reflexivity.
  - cbn [push_ev cur advance c_rest tags ctls]. rewrite out_push. cbn [emit mk_event ev_kind]. rewrite app_nil_r. auto.
Qed.

(* ---- text before a tag ------------------------------------------------------------------------------ *)
Lemma bol_stop_lt w : bol_stop (cLT :: w) = false.
Proof. reflexivity. Qed.

Lemma scan_text_upto_tag : forall a prev w, plain a = true ->
  scan_text prev (a ++ cLT :: cPCT :: w) = (a, [], cLT :: cPCT :: w).
Proof.
  induction a as [|c a IH]; intros prev w Hp.
  - cbn [app]. assert (Hs : text_stop_here prev (cLT :: cPCT :: w) = true).
    { rewrite text_stop_alt. replace (starts_with [cLT; cPCT] (cLT :: cPCT :: w)) with true by reflexivity.
      rewrite orb_true_r. reflexivity. }
    cbn [scan_text]. rewrite Hs. reflexivity.
  - cbn [app scan_text].
    assert (Hb : bol_stop (c :: a ++ cLT :: cPCT :: w) = false).
    { change (c :: a ++ cLT :: cPCT :: w) with ((c :: a) ++ cLT :: cPCT :: w). apply bol_stop_plain_app; [exact Hp|apply bol_stop_lt]. }
    assert (Hc : plainc c = true) by (cbn [plain forallb] in Hp; apply andb_prop in Hp as [H _]; exact H).
    rewrite (text_stop_plain_head prev c _ Hc Hb).
    rewrite (plain_head_not c a cBSLASH Hp eq_refl).
    cbn [plain forallb] in Hp. apply andb_prop in Hp as [_ Hp].
    rewrite (IH (Some c) w Hp). reflexivity.
Qed.

Lemma tag_prefix_step x a w fuel :
  plain (x :: a) = true ->
  exists st1, lex_loop (S fuel) (lex_start ((x :: a) ++ cLT :: cPCT :: w)) = lex_loop fuel st1 /\
              c_rest (cur st1) = cLT :: cPCT :: w /\ quiet st1 /\ out st1 = x :: a.
Proof.
  intros Hp. unfold lex_start. change ((x :: a) ++ cLT :: cPCT :: w) with (x :: a ++ cLT :: cPCT :: w) at 1.
  rewrite (scan_coding_head x _ (plain_head_not x a cHASH Hp eq_refl)).
  set (st0 := {| cur := {| c_rest := (x :: a) ++ cLT :: cPCT :: w; c_off := 0; c_line := 1; c_colbase := 0; c_prev := None |};
                 tags := []; ctls := []; evs := [] |}).
  assert (Er : c_rest (cur st0) = (x :: a) ++ cLT :: cPCT :: w) by reflexivity.
  assert (Hm : m_text st0 = Continue (push_ev st0 (mk_event (cur st0) (KText (x :: a)) (x :: a)) (advance (cur st0) (x :: a) (cLT :: cPCT :: w)))).
  { unfold m_text. rewrite Er, (scan_text_upto_tag (x :: a) _ w Hp). reflexivity. }
  eexists. split.
  - apply (lex_loop_step fuel st0 _ x (a ++ cLT :: cPCT :: w)); [reflexivity|].
    rewrite (cascade_head st0 (x :: a) cLT (cPCT :: w) Er Hp); try reflexivity; try exact Hm; cbn [hd].
    + exact (plain_head_not x a cDOLLAR Hp eq_refl).
    + exact (plain_head_not x a cLT Hp eq_refl).
  - cbn [push_ev cur advance c_rest tags ctls]. rewrite out_push. cbn [emit mk_event ev_kind].
    split; [reflexivity|]. split; [split; reflexivity|reflexivity].
Qed.

(* ---- the text section --------------------------------------------------------------------------------- *)
Lemma scan_tag_start_text w : scan_tag_start (s2l "<%text>" ++ w) = Some (s2l "text", [], false, s2l "<%text>", w).
Proof. reflexivity. Qed.

Lemma scan_tag_end_text w : scan_tag_end (s2l "</%text>" ++ w) = Some (s2l "text", s2l "</%text>", w).
Proof. reflexivity. Qed.

Lemma text_step st body t :
  c_rest (cur st) = s2l "<%text>" ++ body ++ s2l "</%text>" ++ t -> nolt body = true ->
  exists st', cascade matcher_order st = Continue st' /\ c_rest (cur st') = t /\ tags st' = tags st /\ ctls st' = ctls st /\
              out st' = out st ++ body.
Proof.
  intros Er Hb.
  assert (Er' : c_rest (cur st) = cLT :: (s2l "%text>" ++ body ++ s2l "</%text>" ++ t)) by (rewrite Er; reflexivity).
  assert (Hcm : m_comment st = NoMatch).
  { unfold m_comment, scan_doc. rewrite Er. reflexivity. }
  assert (Hfl : find_lit (s2l "</%text>") (body ++ s2l "</%text>" ++ t) = Some (body, s2l "</%text>" ++ t)).
  { change (s2l "</%text>") with (cLT :: s2l "/%text>"). apply find_lit_nolt. exact Hb. }
  assert (Hts : exists st', m_tag_start st = Continue st' /\ c_rest (cur st') = t /\ tags st' = tags st /\ ctls st' = ctls st /\
              out st' = out st ++ body).
  { unfold m_tag_start. rewrite Er, scan_tag_start_text.
    replace (str_eqb (s2l "text") (s2l "text")) with true by reflexivity.
    rewrite Hfl. destruct body as [|b body'].
    - unfold do_tag_end. cbn [cur c_rest advance]. change ([] ++ s2l "</%text>" ++ t) with (s2l "</%text>" ++ t). rewrite scan_tag_end_text. cbn [tags].
      replace (str_eqb (s2l "text") (s2l "text")) with true by reflexivity.
      eexists. split; [reflexivity|]. cbn [cur c_rest advance tags ctls]. repeat split.
      unfold out. cbn [evs rev]. rewrite !flat_map_app. cbn [flat_map emit mk_event ev_kind]. rewrite !app_nil_r. reflexivity.
    - unfold do_tag_end. cbn [cur c_rest advance push_ev]. rewrite scan_tag_end_text. cbn [tags].
      replace (str_eqb (s2l "text") (s2l "text")) with true by reflexivity.
      eexists. split; [reflexivity|]. cbn [cur c_rest advance tags ctls]. repeat split.
      unfold out. cbn [evs rev push_ev]. rewrite !flat_map_app. cbn [flat_map emit mk_event ev_kind]. rewrite !app_nil_r. reflexivity. }
  destruct Hts as (st' & Hm & H1 & H2 & H3 & H4). exists st'. split; [|auto].
  unfold matcher_order. cbn [cascade run_matcher].
  rewrite ?(m_expression_first st cLT _ Er' eq_refl).
  rewrite ?(m_control_line_first st cLT _ Er' eq_refl eq_refl eq_refl).
  rewrite ?Hcm, Hm. reflexivity.
Qed.

(* a construct that begins with <% , after directive-free text a (possibly empty), followed by directive-free text t:
   whatever one step of the cascade does with the construct, the rest is written as it stands *)
Lemma after_prefix a w t (extra : str) :
  plain a = true -> plain t = true ->
  (forall st, c_rest (cur st) = cLT :: cPCT :: w ->
     exists st', cascade matcher_order st = Continue st' /\ c_rest (cur st') = t /\ tags st' = tags st /\ ctls st' = ctls st /\
                 out st' = out st ++ extra) ->
  (2 <= length w)%nat ->
  output (a ++ cLT :: cPCT :: w) = a ++ extra ++ t /\ snd (lex (a ++ cLT :: cPCT :: w)) = LexOk.
Proof.
  intros Ha Ht Hstep Hw. unfold output, lex.
  assert (Hlen : (length (a ++ cLT :: cPCT :: w) = length a + 2 + length w)%nat) by (rewrite app_length; cbn [length]; lia).
  destruct a as [|x a].
  - cbn [app]. unfold lex_start. rewrite (scan_coding_head cLT _ eq_refl).
    set (st0 := {| cur := {| c_rest := cLT :: cPCT :: w; c_off := 0; c_line := 1; c_colbase := 0; c_prev := None |};
                   tags := []; ctls := []; evs := [] |}).
    destruct (Hstep st0 eq_refl) as (st2 & Hcas & Hr2 & Ht2 & Hc2 & Ho2).
    rewrite (lex_loop_step _ st0 st2 cLT (cPCT :: w) eq_refl Hcas).
    assert (Hf : (2 <= S (length (cLT :: cPCT :: w)))%nat) by (cbn [length]; lia).
    destruct (lex_loop_plain_out' _ st2 Hf) as [Ho Hk]; [rewrite Hr2; exact Ht|split; [rewrite Ht2|rewrite Hc2]; reflexivity|].
    rewrite Ho, Hk, Ho2, Hr2. split; reflexivity.
  - destruct (tag_prefix_step x a w (S (length ((x :: a) ++ cLT :: cPCT :: w))) Ha) as (st1 & Hl & Hr1 & [Ht1 Hc1] & Ho1).
    rewrite Hl.
    destruct (Hstep st1 Hr1) as (st2 & Hcas & Hr2 & Ht2 & Hc2 & Ho2).
    rewrite (lex_loop_step _ st1 st2 _ _ Hr1 Hcas).
    assert (Hf : (2 <= length ((x :: a) ++ cLT :: cPCT :: w))%nat) by lia.
    destruct (lex_loop_plain_out' _ st2 Hf) as [Ho Hk]; [rewrite Hr2; exact Ht|split; congruence|].
    rewrite Ho, Hk, Ho2, Ho1, Hr2. split; [|reflexivity]. rewrite <- !app_assoc. reflexivity.
Qed.

(* ---- a doc section vanishes ------------------------------------------------------------------------------ *)
Theorem doc_section_vanishes a body t :
  plain a = true -> nolt body = true -> plain t = true ->
  let s := a ++ s2l "<%doc>" ++ body ++ s2l "</%doc>" ++ t in
  output s = a ++ t /\ snd (lex s) = LexOk.
Proof.
  intros Ha Hb Ht s.
  assert (E : s = a ++ cLT :: cPCT :: (s2l "doc>" ++ body ++ s2l "</%doc>" ++ t)) by reflexivity.
  rewrite E. change (a ++ t) with (a ++ [] ++ t).
  apply after_prefix; [exact Ha|exact Ht| |cbn [app length s2l]; lia].
  intros st Er. destruct (doc_step st body t Er Hb) as (st' & H1 & H2 & H3 & H4 & H5).
  exists st'. rewrite app_nil_r. auto.
Qed.

(* ---- the body of a text section is emitted verbatim --------------------------------------------------------- *)
Theorem text_section_verbatim a body t :
  plain a = true -> nolt body = true -> plain t = true ->
  let s := a ++ s2l "<%text>" ++ body ++ s2l "</%text>" ++ t in
  output s = a ++ body ++ t /\ snd (lex s) = LexOk.
Proof.
  intros Ha Hb Ht s.
  assert (E : s = a ++ cLT :: cPCT :: (s2l "text>" ++ body ++ s2l "</%text>" ++ t)) by reflexivity.
  rewrite E.
  apply after_prefix; [exact Ha|exact Ht| |cbn [app length s2l]; lia].
  intros st Er. exact (text_step st body t Er Hb).
Qed.

Theorem continuation_lf_crlf a t : plain a = true -> plain t = true ->
  output (a ++ [cBSLASH; LF] ++ t) = a ++ t /\ output (a ++ [cBSLASH; CR; LF] ++ t) = a ++ t.
Proof.
  intros Ha Ht. split.
  - exact (proj1 (continuation_removes_newline a (LF :: t) [LF] t Ha Ht eq_refl)).
  - exact (proj1 (continuation_removes_newline a (CR :: LF :: t) [CR; LF] t Ha Ht eq_refl)).
Qed.
