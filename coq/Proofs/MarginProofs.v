(* Proofs/MarginProofs.v -- lemmas behind the margin part of Properties/C19.v *)
From Coq Require Import Lia.
From MakoV Require Import Lib.Str Model.Margin.
Open Scope N_scope.

Lemma countN_app c a b : countN c (a ++ b) = countN c a + countN c b.
Proof. induction a as [|x r IH]; cbn [app countN]; [reflexivity|]. rewrite IH. lia. Qed.

Definition no_lf (l : str) : Prop := countN LF l = 0.

(* ---- splitting: one more line than there are LF, and no line contains an LF ---------------- *)
Lemma split_lines_count s : forall cur, no_lf cur ->
  N.of_nat (length (split_lines s cur)) = countN LF s + 1 /\ Forall no_lf (split_lines s cur).
Proof.
  induction s as [|c r IH]; intros cur Hc; cbn [split_lines].
  - cbn. split; [reflexivity|constructor; [exact Hc|constructor]].
  - destruct (N.eqb_spec c LF) as [->|Hne].
    + destruct (IH [] eq_refl) as [H1 H2]. cbn [length countN]. rewrite N.eqb_refl. split; [lia|constructor; assumption].
    + assert (Hcnt : countN LF (c :: r) = countN LF r).
      { cbn [countN]. apply N.eqb_neq in Hne. rewrite Hne. lia. }
      rewrite Hcnt. destruct ((c =? CR) && match r with d :: _ => d =? LF | [] => false end).
      * apply IH. exact Hc.
      * apply IH. unfold no_lf. rewrite countN_app. cbn [countN]. apply N.eqb_neq in Hne. rewrite Hne. unfold no_lf in Hc. lia.
Qed.

Lemma join_lf_count ls : Forall no_lf ls -> ls <> [] -> countN LF (join_lf ls) + 1 = N.of_nat (length ls).
Proof.
  induction ls as [|x r IH]; intros H Hne; [congruence|]. inversion H as [|? ? Hx Hr]; subst.
  destruct r as [|y r'].
  - cbn [join_lf length]. unfold no_lf in Hx. lia.
  - change (join_lf (x :: y :: r')) with (x ++ LF :: join_lf (y :: r')).
    rewrite countN_app. cbn [countN]. rewrite N.eqb_refl. specialize (IH Hr ltac:(discriminate)).
    unfold no_lf in Hx. cbn [length] in *. lia.
Qed.

Lemma expandtabs_count l : forall col, countN LF (expandtabs l col) = countN LF l.
Proof.
  induction l as [|c r IH]; intros col; [reflexivity|]. cbn [expandtabs].
  destruct (N.eqb_spec c cTAB) as [->|Ht].
  - rewrite countN_app, IH.
    assert (Hrep : forall n, countN LF (repeat cSP n) = 0) by (induction n; cbn; auto).
    rewrite Hrep. reflexivity.
  - destruct ((c =? LF) || (c =? CR)); cbn [countN]; rewrite IH; reflexivity.
Qed.

Lemma expandtabs_no_lf l col : no_lf l -> no_lf (expandtabs l col).
Proof. unfold no_lf. rewrite expandtabs_count. auto. Qed.

Lemma leading_blanks_split l : leading_blanks l ++ skipn (length (leading_blanks l)) l = l.
Proof. induction l as [|c r IH]; [reflexivity|]. cbn [leading_blanks]. destruct (is_blank_m c); [cbn; rewrite IH; reflexivity|reflexivity]. Qed.

Lemma expand_margin_count l : countN LF (expand_margin l) = countN LF l.
Proof.
  unfold expand_margin. rewrite countN_app, expandtabs_count, <- countN_app, leading_blanks_split. reflexivity.
Qed.

Lemma expand_margin_no_lf l : no_lf l -> no_lf (expand_margin l).
Proof. unfold no_lf. rewrite expand_margin_count. auto. Qed.

Lemma strip_margin_no_lf m l : no_lf l -> no_lf (strip_margin m l).
Proof.
  intros H. unfold strip_margin. destruct m as [m|]; [|exact H].
  destruct (strip_prefix m l) as [r|] eqn:E; [|exact H].
  apply strip_prefix_spec in E. subst l. unfold no_lf in *. rewrite countN_app in H. lia.
Qed.

Lemma adjust_lines_shape ls : forall st margin, Forall no_lf ls ->
  length (adjust_lines ls st margin) = length ls /\ Forall no_lf (adjust_lines ls st margin).
Proof.
  induction ls as [|l r IH]; intros st margin H; [split; [reflexivity|constructor]|].
  inversion H as [|? ? Hl Hr]; subst. cbn [adjust_lines]. destruct (in_multi_line st l) as [inside st'].
  destruct inside.
  - destruct (IH st' margin Hr) as [A B]. split; [cbn [length]; rewrite A; reflexivity|constructor; assumption].
  - set (m' := match margin with None => _ | Some _ => margin end).
    destruct (IH st' m' Hr) as [A B]. split; [cbn [length]; rewrite A; reflexivity|].
    constructor; [apply strip_margin_no_lf, expand_margin_no_lf; exact Hl|exact B].
Qed.

(* re-margining never changes the number of lines: line k of the adjusted block is line k of
   the block as written (used by C11, C12, C20) *)
Theorem line_count_preserved text : countN LF (adjust_whitespace text) = countN LF text.
Proof.
  unfold adjust_whitespace. destruct (split_lines_count text [] eq_refl) as [Hlen Hno].
  destruct (adjust_lines_shape (split_lines text []) m0 None Hno) as [Hl Hn].
  assert (Hne : adjust_lines (split_lines text []) m0 None <> []).
  { intros E. rewrite E in Hl. cbn in Hl. destruct (split_lines text []); [cbn in Hlen; lia|discriminate]. }
  pose proof (join_lf_count _ Hn Hne) as J. rewrite Hl in J. lia.
Qed.

(* ---- uniform margin on simple lines --------------------------------------------------------------- *)
Definition simple_char (c : N) : bool :=
  negb (c =? cHASHm) && negb (c =? cDQm) && negb (c =? cSQm) && negb (c =? cBS) && negb (c =? cTAB) && negb (c =? CR) && negb (c =? LF).
Definition simple (l : str) : Prop := forallb simple_char l = true.

Lemma simple_expandtabs l : simple l -> forall col, expandtabs l col = l.
Proof.
  unfold simple. induction l as [|c r IH]; intros H col; [reflexivity|]. cbn [forallb] in H. apply andb_true_iff in H as [Hc Hr].
  unfold simple_char in Hc. repeat (apply andb_true_iff in Hc as [Hc ?]).
  repeat match goal with X : negb _ = true |- _ => apply negb_true_iff in X end.
  cbn [expandtabs]. repeat match goal with X : (c =? _) = false |- _ => rewrite ?X; clear X end.
  cbn [orb]. rewrite (IH Hr). reflexivity.
Qed.

Lemma simple_leading l : simple l -> simple (leading_blanks l).
Proof.
  unfold simple. induction l as [|c r IH]; intros H; [reflexivity|]. cbn [forallb] in H. apply andb_true_iff in H as [Hc Hr].
  cbn [leading_blanks]. destruct (is_blank_m c); [|reflexivity]. cbn [forallb]. rewrite Hc, (IH Hr). reflexivity.
Qed.

Lemma simple_expand_margin l : simple l -> expand_margin l = l.
Proof.
  intros H. unfold expand_margin. rewrite (simple_expandtabs _ (simple_leading l H) 0). apply leading_blanks_split.
Qed.

Lemma simple_scan l : simple l -> forall skip, scan_line l None skip = None.
Proof.
  unfold simple. induction l as [|c r IH]; intros H skip; [reflexivity|]. cbn [forallb] in H. apply andb_true_iff in H as [Hc Hr].
  unfold simple_char in Hc. repeat (apply andb_true_iff in Hc as [Hc ?]).
  repeat match goal with X : negb _ = true |- _ => apply negb_true_iff in X end.
  cbn [scan_line]. destruct skip; [|apply IH; exact Hr].
  unfold starts_with, delim. cbn [strip_prefix]. rewrite (N.eqb_sym cDQm c), (N.eqb_sym cSQm c).
  repeat match goal with X : (c =? _) = false |- _ => rewrite ?X; clear X end. apply IH. exact Hr.
Qed.

Lemma simple_no_backslash l : simple l -> ends_with_backslash l = false.
Proof.
  unfold simple, ends_with_backslash. intros H. destruct (rev l) as [|c r] eqn:E; [reflexivity|].
  assert (Hin : In c l) by (apply in_rev; rewrite E; left; reflexivity).
  rewrite forallb_forall in H. specialize (H c Hin). unfold simple_char in H.
  repeat (apply andb_true_iff in H as [H ?]).
  repeat match goal with X : negb _ = true |- _ => apply negb_true_iff in X end. assumption.
Qed.

(* once the margin is known, every simple line loses exactly that margin (if it has it) and nothing else *)
Theorem margin_removed_uniformly m ls :
  Forall simple ls -> adjust_lines ls m0 (Some m) = map (strip_margin (Some m)) ls.
Proof.
  induction ls as [|l r IH]; intros H; [reflexivity|]. inversion H as [|? ? Hl Hr]; subst.
  cbn [adjust_lines map]. unfold in_multi_line. cbn [backslashed triple m0 orb].
  rewrite (simple_scan l Hl 0), (simple_no_backslash l Hl), (simple_expand_margin l Hl).
  change {| backslashed := false; triple := None |} with m0. rewrite (IH Hr). reflexivity.
Qed.

Lemma strip_margin_exact m r : strip_margin (Some m) (m ++ r) = r.
Proof. unfold strip_margin. rewrite strip_prefix_app. reflexivity. Qed.

(* the first code line fixes the margin *)
Theorem first_code_line_sets_margin l rest :
  simple l -> sets_margin l = true ->
  adjust_lines (l :: rest) m0 None =
    skipn (length (leading_blanks l)) l :: adjust_lines rest m0 (Some (leading_blanks l)).
Proof.
  intros Hl Hs. cbn [adjust_lines]. unfold in_multi_line. cbn [backslashed triple m0 orb].
  rewrite (simple_scan l Hl 0), (simple_no_backslash l Hl), (simple_expand_margin l Hl), Hs.
  change {| backslashed := false; triple := None |} with m0. f_equal.
  assert (E : forall x, x = leading_blanks x ++ skipn (length (leading_blanks x)) x).
  { induction x as [|c x' IHx]; [reflexivity|]. cbn [leading_blanks]. destruct (is_blank_m c); [cbn [app length skipn]; f_equal; exact IHx|reflexivity]. }
  set (lb := leading_blanks l). set (tl := skipn (length lb) l).
  assert (El : l = lb ++ tl) by (apply E). rewrite El at 1. apply strip_margin_exact.
Qed.

(* "no character inside a string literal changes" is FALSE of the faithful model: a "#" inside an
   ordinary string hides the opening of a triple-quoted string on the same line, and the lines
   inside that string lose their indentation (known finding C19-F3) *)
Theorem strings_untouched_refuted :
  exists text, nth 1 (split_lines (adjust_whitespace text) []) [] <> nth 1 (split_lines text []) [].
Proof.
  exists (s2l "  x = ""#"" + '''" ++ [LF] ++ s2l "    keep" ++ [LF] ++ s2l "  '''"). vm_compute. discriminate.
Qed.

(* a line that starts inside a triple-quoted string or after a backslash continuation is passed
   through unchanged, whatever the margin *)
Theorem inside_multiline_untouched l rest st margin :
  backslashed st = true \/ triple st <> None ->
  adjust_lines (l :: rest) st margin = l :: adjust_lines rest (snd (in_multi_line st l)) margin.
Proof.
  intros H. cbn [adjust_lines]. unfold in_multi_line. cbn [snd].
  assert (E : backslashed st || match triple st with Some _ => true | None => false end = true).
  { destruct H as [->|H]; [reflexivity|]. destruct (triple st); [apply orb_true_r|congruence]. }
  rewrite E. reflexivity.
Qed.

(* ---- the printer side -------------------------------------------------------------------------------- *)
Theorem flush_one_line_per_entry ind : forall ls st margin, length (flush_lines ind ls st margin) = length ls.
Proof.
  induction ls as [|l r IH]; intros st margin; [reflexivity|]. cbn [flush_lines]. unfold p_in_multi_line.
  destruct (p_backslashed st || p_triple st); cbn [length]; rewrite IH; reflexivity.
Qed.

Theorem flush_inside_multiline_untouched ind l rest st margin :
  p_backslashed st = true \/ p_triple st = true ->
  flush_lines ind (l :: rest) st margin = l :: flush_lines ind rest (snd (p_in_multi_line st l)) margin.
Proof.
  intros H. cbn [flush_lines]. unfold p_in_multi_line. cbn [snd].
  assert (E : p_backslashed st || p_triple st = true) by (destruct H as [-> | ->]; [reflexivity|apply orb_true_r]).
  rewrite E. reflexivity.
Qed.

(* a simple line that carries the margin gets exactly the indentation in its place *)
Theorem flush_replaces_margin ind m body rest :
  simple (m ++ body) -> p_in_multi_line p0 (m ++ body) = (false, p0) ->
  flush_lines ind ((m ++ body) :: rest) p0 (Some m) =
    (match m with [] => ind ++ body | _ => ind ++ body end) :: flush_lines ind rest p0 (Some m).
Proof.
  intros Hs Hp. cbn [flush_lines]. rewrite Hp. rewrite (simple_expand_margin _ Hs). f_equal.
  unfold indent_line. destruct m as [|c m']; [reflexivity|]. rewrite strip_prefix_app. reflexivity.
Qed.
