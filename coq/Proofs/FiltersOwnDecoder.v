(* Proofs/FiltersOwnDecoder.v -- the library's own decoder (html_entities_unescape) reads back what the htmlentityreplace
   handler writes: true since fix 36ccec6 (upper-case hexadecimal references) *)
From Coq Require Import ZArith Lia ZifyBool.
From MakoV Require Import Lib.Str Lib.Utf8 Gen.Unicode Gen.Filters Model.Filters Proofs.FiltersProofs.
Open Scope N_scope.
Ltac Zify.zify_post_hook ::= Z.to_euclidean_division_equations.
Arguments N.add : simpl never.
Arguments N.sub : simpl never.
Arguments N.mul : simpl never.
Arguments N.div : simpl never.
Arguments N.modulo : simpl never.
Arguments N.ltb : simpl never.
Arguments N.leb : simpl never.
Arguments N.eqb : simpl never.

Lemma sixteen d : d < 16 -> d = 0 \/ d = 1 \/ d = 2 \/ d = 3 \/ d = 4 \/ d = 5 \/ d = 6 \/ d = 7 \/ d = 8 \/ d = 9 \/
              d = 10 \/ d = 11 \/ d = 12 \/ d = 13 \/ d = 14 \/ d = 15.
Proof. lia. Qed.

Lemma hexchar_value_hexdigit d : d < 16 -> hexchar_value (hexdigit_upper d) = d.
Proof. intros H. pose proof (sixteen d H) as C. repeat (destruct C as [->|C]; [vm_compute; reflexivity|]). subst; vm_compute; reflexivity. Qed.

Lemma is_hexchar_hexdigit d : d < 16 -> is_hexchar_re (hexdigit_upper d) = true.
Proof. intros H. pose proof (sixteen d H) as C. repeat (destruct C as [->|C]; [vm_compute; reflexivity|]). subst; vm_compute; reflexivity. Qed.

Lemma digits_value_hex ds : Forall (fun d => d < 16) ds -> forall acc,
  digits_value 16 hexchar_value (map hexdigit_upper ds) acc = be_val ds acc.
Proof.
  induction 1 as [|d ds Hd _ IH]; intros acc; [reflexivity|].
  cbn [map digits_value]. rewrite (hexchar_value_hexdigit d Hd). rewrite IH. reflexivity.
Qed.

Lemma to_hex_value c : c < 16 ^ 16 -> digits_value 16 hexchar_value (to_hex c) 0 = c.
Proof.
  intros Hc. unfold to_hex. rewrite digits_value_hex.
  - rewrite be_val_rev. apply (hex_digits_val 16 c); [exact Hc|discriminate].
  - apply Forall_rev. apply hex_digits_small.
Qed.

Lemma to_hex_hexchars c : forallb is_hexchar_re (to_hex c) = true.
Proof.
  unfold to_hex. rewrite forallb_forall. intros x Hx. apply in_map_iff in Hx as [d [<- Hd]].
  apply is_hexchar_hexdigit. apply in_rev in Hd.
  pose proof (hex_digits_small 16 c) as F. rewrite Forall_forall in F. apply F. exact Hd.
Qed.

(* the library's own decoder reads back the numeric reference the library writes *)
Lemma unescape_numeric_ref c : c < 1114112 -> html_entities_unescape (numeric_ref c) = Some [c].
Proof.
  intros Hc. assert (Hc16 : c < 16 ^ 16) by (change (16 ^ 16) with 18446744073709551616; lia).
  unfold html_entities_unescape, numeric_ref. cbn [s2l app].
  change (N_of_ascii "&") with 38. change (N_of_ascii "#") with 35. change (N_of_ascii "x") with 120.
  cbn [unescape_go]. rewrite N.eqb_refl.
  unfold parse_charref. rewrite N.eqb_refl.
  assert (Hdec : parse_dec_ref (120 :: to_hex c ++ [59]) = None) by reflexivity.
  rewrite Hdec. unfold parse_hex_ref. rewrite N.eqb_refl.
  rewrite (span_app is_hexchar_re (to_hex c) 59 [] (to_hex_hexchars c) eq_refl).
  destruct (to_hex c) as [|h t] eqn:E; [exfalso; revert E; apply to_hex_nonempty|].
  rewrite N.eqb_refl. rewrite <- E. rewrite (to_hex_value c Hc16).
  apply N.ltb_lt in Hc. rewrite Hc.
  rewrite (unescape_skip_name (to_hex c) []). reflexivity.
Qed.

Theorem handler_replacement_own_decoder c : 128 <= c -> c < 1114112 ->
  exists rep, entity_escape_full [c] = Some rep /\ html_entities_unescape rep = Some [c].
Proof.
  intros H1 H2. destruct (handler_replacement c H1 H2) as [rep [Hrep _]]. exists rep. split; [exact Hrep|].
  unfold entity_escape_full in Hrep. cbn [flat_map] in Hrep. rewrite (escapable_nonascii c H1 H2), app_nil_r in Hrep.
  destruct (forallb (fun c0 => c0 <? 128) (escape_ref c)); [|discriminate]. injection Hrep as <-.
  unfold escape_ref. destruct (assocN c codepoint2entity) as [e|] eqn:He.
  - pose proof (entity_roundtrip [c]) as R. unfold html_entities_escape in R. cbn [flat_map] in R.
    rewrite He, app_nil_r in R. exact R.
  - apply unescape_numeric_ref. exact H2.
Qed.
