(* Proofs/FiltersProofs.v -- lemmas behind Properties/C10.v *)
From Coq Require Import ZArith Lia ZifyBool.
From MakoV Require Import Lib.Str Lib.Utf8 Gen.Unicode Gen.Filters Model.Filters.
Open Scope N_scope.
Ltac Zify.zify_post_hook ::= Z.to_euclidean_division_equations.
Arguments N.add : simpl never.
Arguments N.sub : simpl never.
Arguments N.mul : simpl never.
Arguments N.div : simpl never.
Arguments N.modulo : simpl never.
Arguments N.ltb : simpl never.
Arguments N.leb : simpl never.
Arguments N.eqb : simpl never.

(* ------------------------------------------------------------------------ *)
(* reference decoder: structural lemmas                                       *)
(* ------------------------------------------------------------------------ *)

Definition name_ok (nm : str) : bool :=
  forallb (fun x => negb (x =? 59) && negb (x =? 38) && negb (memN x markup_chars)) nm
  && (Nat.ltb (length nm) 40).

Lemma take_until_semi_name fuel nm rest :
  forallb (fun x => negb (x =? 59) && negb (x =? 38) && negb (memN x markup_chars)) nm = true ->
  (length nm < fuel)%nat ->
  take_until_semi fuel (nm ++ 59 :: rest) = Some (nm, S (length nm)).
Proof.
  revert nm; induction fuel as [|f IH]; intros nm Hall Hlen; [lia|].
  destruct nm as [|c nm]; simpl.
  - reflexivity.
  - simpl in Hall. apply andb_true_iff in Hall as [Hc Hall].
    apply andb_true_iff in Hc as [Hc _]. apply andb_true_iff in Hc as [Hc1 Hc2].
    apply negb_true_iff in Hc1, Hc2. rewrite Hc1, Hc2.
    rewrite IH; [reflexivity|assumption|simpl in Hlen; lia].
Qed.

Lemma ref_skip a b : ref_unescape_go (a ++ b) (length a) = ref_unescape_go b 0.
Proof. induction a as [|x a IH]; simpl; [destruct b; reflexivity|exact IH]. Qed.

Lemma ref_entity nm c rest :
  name_ok nm = true -> ref_lookup nm = Some c ->
  ref_unescape_go (38 :: nm ++ 59 :: rest) 0 = c :: ref_unescape_go rest 0.
Proof.
  intros Hok Hl. apply andb_true_iff in Hok as [Hall Hlen]. apply Nat.ltb_lt in Hlen.
  cbn [ref_unescape_go]. rewrite N.eqb_refl.
  rewrite (take_until_semi_name 40 nm rest Hall Hlen), Hl.
  f_equal. replace (nm ++ 59 :: rest) with ((nm ++ [59]) ++ rest) by (rewrite <- app_assoc; reflexivity).
  replace (S (length nm)) with (length (nm ++ [59])) by (rewrite app_length; simpl; lia).
  apply ref_skip.
Qed.

Lemma ref_plain c r : c <> 38 -> ref_unescape_go (c :: r) 0 = c :: ref_unescape_go r 0.
Proof. intros H. cbn [ref_unescape_go]. apply N.eqb_neq in H. rewrite H. reflexivity. Qed.

Lemma amps_ok_app_noamp a b : forallb (fun x => negb (x =? 38)) a = true -> amps_ok (a ++ b) = amps_ok b.
Proof.
  induction a as [|x a IH]; simpl; intros H; [reflexivity|].
  apply andb_true_iff in H as [Hx H]. apply negb_true_iff in Hx. rewrite Hx. simpl. auto.
Qed.

Lemma name_ok_noamp nm : name_ok nm = true -> forallb (fun x => negb (x =? 38)) (nm ++ [59]) = true.
Proof.
  intros H. apply andb_true_iff in H as [H _]. rewrite forallb_app. apply andb_true_iff. split; [|reflexivity].
  rewrite forallb_forall in *. intros x Hx. specialize (H x Hx).
  apply andb_true_iff in H as [H _]. apply andb_true_iff in H as [_ H]. exact H.
Qed.

Lemma amps_ok_entity nm c rest :
  name_ok nm = true -> ref_lookup nm = Some c ->
  amps_ok (38 :: nm ++ 59 :: rest) = amps_ok rest.
Proof.
  intros Hok Hl. pose proof Hok as Hok'. apply andb_true_iff in Hok as [Hall Hlen]. apply Nat.ltb_lt in Hlen.
  cbn [amps_ok]. rewrite N.eqb_refl.
  rewrite (take_until_semi_name 40 nm rest Hall Hlen), Hl. simpl.
  replace (nm ++ 59 :: rest) with ((nm ++ [59]) ++ rest) by (rewrite <- app_assoc; reflexivity).
  apply amps_ok_app_noamp. apply name_ok_noamp; assumption.
Qed.

Lemma no_markup_app a b : no_markup (a ++ b) = no_markup a && no_markup b.
Proof. apply forallb_app. Qed.

Lemma no_markup_entity nm r : name_ok nm = true -> no_markup (38 :: nm ++ 59 :: r) = no_markup r.
Proof.
  intros H. apply andb_true_iff in H as [H _]. unfold no_markup. cbn [forallb].
  rewrite forallb_app. cbn [forallb].
  replace (forallb (fun c : N => negb (memN c markup_chars)) nm) with true; [reflexivity|].
  symmetry. rewrite forallb_forall in *. intros x Hx. specialize (H x Hx).
  apply andb_true_iff in H as [_ H]. exact H.
Qed.

(* ------------------------------------------------------------------------ *)
(* generic theorem for sub_chars                                              *)
(* ------------------------------------------------------------------------ *)

(* the shape every table entry must have: "&" name ";" with a decodable name *)
Definition entry_ok (c : N) (e : str) : bool :=
  match e with
  | a :: body =>
      (a =? 38) &&
      match rev body with
      | semi :: rnm =>
          (semi =? 59) && name_ok (rev rnm) &&
          match ref_lookup (rev rnm) with Some v => v =? c | None => false end
      | [] => false
      end
  | [] => false
  end.

Lemma entry_ok_spec c e : entry_ok c e = true ->
  exists nm, e = 38 :: nm ++ [59] /\ name_ok nm = true /\ ref_lookup nm = Some c.
Proof.
  unfold entry_ok. destruct e as [|a body]; [discriminate|].
  intros H. apply andb_true_iff in H as [Ha H]. apply N.eqb_eq in Ha. subst a.
  destruct (rev body) as [|semi rnm] eqn:Hr; [discriminate|].
  apply andb_true_iff in H as [H Hl]. apply andb_true_iff in H as [Hs Hn].
  apply N.eqb_eq in Hs. subst semi.
  destruct (ref_lookup (rev rnm)) as [v|] eqn:Hv; [|discriminate]. apply N.eqb_eq in Hl. subst v.
  exists (rev rnm). repeat split; try assumption.
  f_equal. rewrite <- (rev_involutive body), Hr. reflexivity.
Qed.

Definition table_ok (cls : list N) (tbl : list (N * str)) : bool :=
  forallb (fun c => match assocN c tbl with Some e => entry_ok c e | None => false end) cls
  && memN 38 cls && forallb (fun m => memN m cls) markup_chars.

Section SubChars.
  Variable cls : list N.
  Variable tbl : list (N * str).
  Hypothesis Htab : table_ok cls tbl = true.

  Let esc := sub_chars (fun c => memN c cls) (fun c => assocN c tbl).

  Lemma tab_entry c : memN c cls = true ->
    exists nm, assocN c tbl = Some (38 :: nm ++ [59]) /\ name_ok nm = true /\ ref_lookup nm = Some c.
  Proof.
    intros Hc. unfold table_ok in Htab. apply andb_true_iff in Htab as [H _]. apply andb_true_iff in H as [H _].
    rewrite forallb_forall in H. apply memN_In in Hc. specialize (H c Hc).
    destruct (assocN c tbl) as [e|]; [|discriminate].
    destruct (entry_ok_spec c e H) as [nm [-> [H1 H2]]]. exists nm. auto.
  Qed.

  Lemma amp_in_class : memN 38 cls = true.
  Proof. unfold table_ok in Htab. apply andb_true_iff in Htab as [H _]. apply andb_true_iff in H as [_ H]. exact H. Qed.

  Lemma markup_in_class c : memN c markup_chars = true -> memN c cls = true.
  Proof.
    intros Hc. unfold table_ok in Htab. apply andb_true_iff in Htab as [_ H].
    rewrite forallb_forall in H. apply H. apply memN_In. exact Hc.
  Qed.

  Theorem sub_chars_total s : exists o, esc s = Some o.
  Proof.
    induction s as [|c r [o IH]]; [exists []; reflexivity|].
    unfold esc in *. cbn [sub_chars]. rewrite IH.
    destruct (memN c cls) eqn:Hc.
    - destruct (tab_entry c Hc) as [nm [-> _]]. eexists; reflexivity.
    - eexists; reflexivity.
  Qed.

  Theorem sub_chars_spec s o : esc s = Some o -> spec_markup s o = true.
  Proof.
    unfold spec_markup. revert o; induction s as [|c r IH]; intros o H.
    - unfold esc in H. cbn in H. inversion H. reflexivity.
    - unfold esc in *. cbn [sub_chars] in H.
      destruct (sub_chars _ _ r) as [r'|] eqn:Hr; [|discriminate].
      specialize (IH r' eq_refl).
      apply andb_true_iff in IH as [IH IH3]. apply andb_true_iff in IH as [IH1 IH2].
      apply str_eqb_eq in IH3.
      destruct (memN c cls) eqn:Hc.
      + destruct (tab_entry c Hc) as [nm [He [Hok Hl]]]. rewrite He in H.
        assert (Ho : o = 38 :: nm ++ 59 :: r') by (inversion H; simpl; rewrite <- app_assoc; reflexivity).
        subst o; clear H.
        apply andb_true_iff; split; [apply andb_true_iff; split|].
        * rewrite (no_markup_entity nm r' Hok). exact IH1.
        * rewrite (amps_ok_entity nm c r' Hok Hl). exact IH2.
        * apply str_eqb_eq. unfold ref_unescape. rewrite (ref_entity nm c r' Hok Hl). f_equal. exact IH3.
      + inversion H; subst o; clear H.
        assert (Hne : c <> 38).
        { intros ->. rewrite amp_in_class in Hc. discriminate. }
        apply andb_true_iff; split; [apply andb_true_iff; split|].
        * unfold no_markup in *. cbn [forallb]. rewrite IH1, andb_true_r.
          destruct (memN c markup_chars) eqn:Hm; [|reflexivity].
          rewrite (markup_in_class c Hm) in Hc. discriminate.
        * cbn [amps_ok]. apply N.eqb_neq in Hne. rewrite Hne. simpl. exact IH2.
        * apply str_eqb_eq. unfold ref_unescape. rewrite ref_plain by assumption. f_equal. exact IH3.
  Qed.
End SubChars.

(* table obligations, re-proved by computation whenever Gen/Filters.v changes *)
Lemma xml_table_ok : table_ok xml_escape_class xml_escapes = true.
Proof. vm_compute. reflexivity. Qed.

Lemma html_table_ok : table_ok html_class html_table = true.
Proof. vm_compute. reflexivity. Qed.

Theorem xml_escape_total s : exists o, xml_escape s = Some o.
Proof. apply (sub_chars_total _ _ xml_table_ok). Qed.

Theorem xml_escape_spec s o : xml_escape s = Some o -> spec_markup s o = true.
Proof. apply (sub_chars_spec _ _ xml_table_ok). Qed.

Theorem html_escape_total s : exists o, html_escape s = Some o.
Proof. apply (sub_chars_total _ _ html_table_ok). Qed.

Theorem html_escape_spec s o : html_escape s = Some o -> spec_markup s o = true.
Proof. apply (sub_chars_spec _ _ html_table_ok). Qed.

(* ------------------------------------------------------------------------ *)
(* entity / html_entities_unescape                                            *)
(* ------------------------------------------------------------------------ *)

Lemma assocN_In {A} c (l : list (N * A)) e : assocN c l = Some e -> In (c, e) l.
Proof.
  induction l as [|[k v] l IH]; simpl; [discriminate|].
  destruct (N.eqb_spec c k) as [->|Hne]; intros H.
  - inversion H; subst. left; reflexivity.
  - right; auto.
Qed.

Lemma span_app (p : N -> bool) a x r :
  forallb p a = true -> p x = false -> span p (a ++ x :: r) = (a, x :: r).
Proof.
  induction a as [|y a IH]; simpl; intros Ha Hx.
  - rewrite Hx. reflexivity.
  - apply andb_true_iff in Ha as [Hy Ha]. rewrite Hy, IH by assumption. reflexivity.
Qed.

Lemma skipn_app_len {A} (a b : list A) : skipn (length a) (a ++ b) = b.
Proof. induction a; simpl; auto. Qed.

Lemma unescape_skip a b : unescape_go (a ++ b) (length a) = unescape_go b 0.
Proof. induction a as [|x a IH]; simpl; [destruct b; reflexivity|exact IH]. Qed.

Lemma unescape_skip_name nm' o' :
  unescape_go (nm' ++ 59 :: o') (S (length nm')) = unescape_go o' 0.
Proof.
  replace (nm' ++ 59 :: o') with ((nm' ++ [59]) ++ o') by (rewrite <- app_assoc; reflexivity).
  replace (S (length nm')) with (length (nm' ++ [59])) by (rewrite app_length; simpl; lia).
  apply unescape_skip.
Qed.

(* what the scanner and the table must satisfy, entry by entry *)
Definition centry_ok (ce : N * str) : bool :=
  let (c, e) := ce in
  match e with
  | a :: c0 :: body =>
      (a =? 38) && negb (c0 =? 35) && name_start c0 && (c <? 1114112) &&
      match rev body with
      | semi :: rnm' =>
          let nm' := rev rnm' in
          (semi =? 59) && name_ok (c0 :: nm') && forallb name_char nm' &&
          negb (match nm' with [] => true | _ => false end) &&
          match assocS (c0 :: nm') name2codepoint with Some v => v =? c | None => false end &&
          match ref_lookup (c0 :: nm') with Some v => v =? c | None => false end &&
          forallb (fun x => x <? 128) e
      | [] => false
      end
  | _ => false
  end.

Lemma centry_ok_spec c e : centry_ok (c, e) = true ->
  exists c0 nm', e = 38 :: c0 :: nm' ++ [59] /\ c0 <> 35 /\ name_start c0 = true /\ c < 1114112 /\
     name_ok (c0 :: nm') = true /\ forallb name_char nm' = true /\ nm' <> [] /\
     assocS (c0 :: nm') name2codepoint = Some c /\ ref_lookup (c0 :: nm') = Some c /\
     forallb (fun x => x <? 128) e = true.
Proof.
  unfold centry_ok. destruct e as [|a [|c0 body]]; try discriminate.
  intros H. repeat (apply andb_true_iff in H as [H ?]).
  destruct (rev body) as [|semi rnm'] eqn:Hr; [discriminate|].
  match goal with X : _ = true |- _ => rename X into Hrest end.
  repeat (apply andb_true_iff in Hrest as [Hrest ?]).
  destruct (assocS (c0 :: rev rnm') name2codepoint) as [v|] eqn:Hv; [|discriminate].
  destruct (ref_lookup (c0 :: rev rnm')) as [v2|] eqn:Hv2; [|discriminate].
  exists c0, (rev rnm').
  repeat match goal with X : (_ =? _) = true |- _ => apply N.eqb_eq in X end.
  repeat match goal with X : negb _ = true |- _ => apply negb_true_iff in X end.
  subst.
  split. { f_equal. f_equal. rewrite <- (rev_involutive body), Hr. reflexivity. }
  split. { apply N.eqb_neq. assumption. }
  split; [assumption|]. split. { apply N.ltb_lt. assumption. }
  split; [assumption|]. split; [assumption|].
  split. { destruct (rev rnm'); [discriminate|congruence]. }
  split; [exact Hv|]. split; [exact Hv2|].
  match goal with X : forallb _ _ = true |- forallb _ ?e = true =>
    replace e with (38 :: c0 :: body) by (do 2 f_equal; rewrite <- (rev_involutive body), Hr; reflexivity); exact X end.
Qed.

Lemma entity_table_ok : forallb centry_ok codepoint2entity = true.
Proof. vm_compute. reflexivity. Qed.

Lemma amp_has_entity : has_entity 38 = true.
Proof. vm_compute. reflexivity. Qed.

Lemma name_char_semi : name_char 59 = false.
Proof. vm_compute. reflexivity. Qed.

Lemma entity_entry c e : assocN c codepoint2entity = Some e ->
  exists c0 nm', e = 38 :: c0 :: nm' ++ [59] /\ c0 <> 35 /\ name_start c0 = true /\ c < 1114112 /\
     name_ok (c0 :: nm') = true /\ forallb name_char nm' = true /\ nm' <> [] /\
     assocS (c0 :: nm') name2codepoint = Some c /\ ref_lookup (c0 :: nm') = Some c /\
     forallb (fun x => x <? 128) e = true.
Proof.
  intros H. apply assocN_In in H. pose proof entity_table_ok as T.
  rewrite forallb_forall in T. apply centry_ok_spec. apply T. exact H.
Qed.

Theorem entity_escape_exact s : entity_exact s (html_entities_escape s) = true.
Proof.
  induction s as [|c r IH]; [reflexivity|].
  unfold html_entities_escape in *. cbn [flat_map entity_exact]. unfold has_entity.
  destruct (assocN c codepoint2entity) as [e|] eqn:He.
  - destruct (entity_entry c e He) as [c0 [nm' [-> [_ [_ [_ [Hok [_ [_ [Hl _]]]]]]]]]].
    set (o' := flat_map _ r) in *.
    change ((38 :: c0 :: nm' ++ [59]) ++ o') with (38 :: ((c0 :: nm') ++ [59]) ++ o').
    rewrite <- app_assoc. cbn [app].
    change (c0 :: nm' ++ 59 :: o') with ((c0 :: nm') ++ 59 :: o').
    pose proof Hok as Hok'. apply andb_true_iff in Hok' as [Hall Hlen]. apply Nat.ltb_lt in Hlen.
    rewrite (take_until_semi_name 40 (c0 :: nm') o' Hall Hlen), Hl, N.eqb_refl. cbn [andb].
    replace ((c0 :: nm') ++ 59 :: o') with (((c0 :: nm') ++ [59]) ++ o') by (rewrite <- app_assoc; reflexivity).
    replace (S (length (c0 :: nm'))) with (length ((c0 :: nm') ++ [59])) by (rewrite app_length; simpl; lia).
    rewrite skipn_app_len. exact IH.
  - cbn [app]. rewrite N.eqb_refl. exact IH.
Qed.

Theorem entity_roundtrip s : html_entities_unescape (html_entities_escape s) = Some s.
Proof.
  unfold html_entities_unescape.
  induction s as [|c r IH]; [reflexivity|].
  unfold html_entities_escape in *. cbn [flat_map].
  destruct (assocN c codepoint2entity) as [e|] eqn:He.
  - destruct (entity_entry c e He) as [c0 [nm' [-> [Hc0 [Hns [Hlt [_ [Hnc [Hne [Hl _]]]]]]]]]].
    set (o' := flat_map _ r) in *.
    change ((38 :: c0 :: nm' ++ [59]) ++ o') with (38 :: c0 :: (nm' ++ [59]) ++ o').
    rewrite <- app_assoc. cbn [app].
    cbn [unescape_go]. rewrite N.eqb_refl.
    unfold parse_charref. apply N.eqb_neq in Hc0. rewrite Hc0.
    unfold parse_name_ref. rewrite Hns.
    rewrite (span_app name_char nm' 59 o' Hnc name_char_semi).
    destruct nm' as [|n0 nm'']; [congruence|].
    rewrite N.eqb_refl, Hl. apply N.ltb_lt in Hlt. rewrite Hlt.
    rewrite (unescape_skip_name (n0 :: nm'') o'), IH. reflexivity.
  - assert (Hne : c <> 38).
    { intros ->. pose proof amp_has_entity as A. unfold has_entity in A. rewrite He in A. discriminate. }
    cbn [app unescape_go]. apply N.eqb_neq in Hne. rewrite Hne, IH. reflexivity.
Qed.

(* ------------------------------------------------------------------------ *)
(* u : UTF-8 and quote_plus round trips                                       *)
(* ------------------------------------------------------------------------ *)

Ltac btrue H := let X := fresh in assert (X : H = true) by (unfold is_cont, is_surrogate; lia); rewrite X; clear X.
Ltac bfalse H := let X := fresh in assert (X : H = false) by (unfold is_cont, is_surrogate; lia); rewrite X; clear X.

Lemma utf8_char_decode c bs rest :
  utf8_char c = Some bs ->
  utf8_decode_go (bs ++ rest) 0 = option_map (cons c) (utf8_decode_go rest 0).
Proof.
  unfold utf8_char.
  destruct (c <? 128) eqn:H1.
  { intros [= <-]. cbn [app utf8_decode_go]. rewrite H1. reflexivity. }
  destruct (c <? 2048) eqn:H2.
  { intros [= <-]. cbn [app utf8_decode_go].
    bfalse (192 + c / 64 <? 128). bfalse (192 + c / 64 <? 192). btrue (192 + c / 64 <? 224).
    btrue (is_cont (128 + c mod 64)).
    replace ((192 + c / 64 - 192) * 64 + (128 + c mod 64 - 128)) with c by lia.
    btrue (128 <=? c). reflexivity. }
  destruct (c <? 65536) eqn:H3.
  { destruct (is_surrogate c) eqn:Hs; [discriminate|].
    intros [= <-]. cbn [app utf8_decode_go].
    bfalse (224 + c / 4096 <? 128). bfalse (224 + c / 4096 <? 192). bfalse (224 + c / 4096 <? 224).
    btrue (224 + c / 4096 <? 240).
    btrue (is_cont (128 + (c / 64) mod 64)). btrue (is_cont (128 + c mod 64)).
    replace ((224 + c / 4096 - 224) * 4096 + (128 + (c / 64) mod 64 - 128) * 64 + (128 + c mod 64 - 128)) with c by lia.
    btrue (2048 <=? c). rewrite Hs. reflexivity. }
  destruct (c <? 1114112) eqn:H4; [|discriminate].
  intros [= <-]. cbn [app utf8_decode_go].
  bfalse (240 + c / 262144 <? 128). bfalse (240 + c / 262144 <? 192). bfalse (240 + c / 262144 <? 224).
  bfalse (240 + c / 262144 <? 240). btrue (240 + c / 262144 <? 248).
  btrue (is_cont (128 + (c / 4096) mod 64)). btrue (is_cont (128 + (c / 64) mod 64)). btrue (is_cont (128 + c mod 64)).
  replace ((240 + c / 262144 - 240) * 262144 + (128 + (c / 4096) mod 64 - 128) * 4096 +
           (128 + (c / 64) mod 64 - 128) * 64 + (128 + c mod 64 - 128)) with c by lia.
  btrue (65536 <=? c). rewrite H4. reflexivity.
Qed.

Lemma utf8_char_bytes c bs : utf8_char c = Some bs -> forallb (fun b => b <? 256) bs = true.
Proof.
  unfold utf8_char.
  destruct (c <? 128) eqn:H1.
  { intros [= <-]. cbn [forallb]. btrue (c <? 256). reflexivity. }
  destruct (c <? 2048) eqn:H2.
  { intros [= <-]. cbn [forallb]. btrue (192 + c / 64 <? 256). btrue (128 + c mod 64 <? 256). reflexivity. }
  destruct (c <? 65536) eqn:H3.
  { destruct (is_surrogate c); [discriminate|]. intros [= <-]. cbn [forallb].
    btrue (224 + c / 4096 <? 256). btrue (128 + (c / 64) mod 64 <? 256). btrue (128 + c mod 64 <? 256). reflexivity. }
  destruct (c <? 1114112) eqn:H4; [|discriminate].
  intros [= <-]. cbn [forallb].
  btrue (240 + c / 262144 <? 256). btrue (128 + (c / 4096) mod 64 <? 256).
  btrue (128 + (c / 64) mod 64 <? 256). btrue (128 + c mod 64 <? 256). reflexivity.
Qed.

Theorem utf8_roundtrip s bs : utf8_encode s = Some bs -> utf8_decode bs = Some s.
Proof.
  unfold utf8_decode. revert bs; induction s as [|c r IH]; intros bs H.
  - inversion H. reflexivity.
  - cbn [utf8_encode] in H. destruct (utf8_char c) as [b|] eqn:Hc; [|discriminate].
    destruct (utf8_encode r) as [br|] eqn:Hr; [|discriminate]. inversion H; subst bs.
    rewrite (utf8_char_decode c b br Hc), (IH br eq_refl). reflexivity.
Qed.

Lemma utf8_encode_bytes s bs : utf8_encode s = Some bs -> forallb (fun b => b <? 256) bs = true.
Proof.
  revert bs; induction s as [|c r IH]; intros bs H.
  - inversion H. reflexivity.
  - cbn [utf8_encode] in H. destruct (utf8_char c) as [b|] eqn:Hc; [|discriminate].
    destruct (utf8_encode r) as [br|] eqn:Hr; [|discriminate]. inversion H; subst bs.
    rewrite forallb_app, (utf8_char_bytes c b Hc), (IH br eq_refl). reflexivity.
Qed.

Theorem utf8_encode_total s : forallb is_scalar s = true -> exists bs, utf8_encode s = Some bs.
Proof.
  induction s as [|c r IH]; intros H; [exists []; reflexivity|].
  cbn [forallb] in H. apply andb_true_iff in H as [Hc Hr]. destruct (IH Hr) as [br Hbr].
  cbn [utf8_encode]. rewrite Hbr.
  unfold is_scalar in Hc. apply andb_true_iff in Hc as [Hlt Hs]. apply negb_true_iff in Hs.
  unfold utf8_char. rewrite Hs, Hlt.
  destruct (c <? 128); [eexists; reflexivity|].
  destruct (c <? 2048); [eexists; reflexivity|].
  destruct (c <? 65536); eexists; reflexivity.
Qed.

Lemma hex_val_hexdigit d : d < 16 -> hex_val (hexdigit_upper d) = Some d.
Proof.
  intros H.
  assert (C : d = 0 \/ d = 1 \/ d = 2 \/ d = 3 \/ d = 4 \/ d = 5 \/ d = 6 \/ d = 7 \/ d = 8 \/ d = 9 \/
              d = 10 \/ d = 11 \/ d = 12 \/ d = 13 \/ d = 14 \/ d = 15) by lia.
  repeat (destruct C as [->|C]; [reflexivity|]). subst; reflexivity.
Qed.

Lemma hexdigit_url_safe d : d < 16 -> url_safe_char (hexdigit_upper d) = true.
Proof.
  intros H.
  assert (C : d = 0 \/ d = 1 \/ d = 2 \/ d = 3 \/ d = 4 \/ d = 5 \/ d = 6 \/ d = 7 \/ d = 8 \/ d = 9 \/
              d = 10 \/ d = 11 \/ d = 12 \/ d = 13 \/ d = 14 \/ d = 15) by lia.
  repeat (destruct C as [->|C]; [reflexivity|]). subst; reflexivity.
Qed.

Lemma unreserved_not_special b : url_unreserved b = true -> (b =? 37) = false /\ (b =? 43) = false.
Proof. unfold url_unreserved, is_ascii_alnum, is_ascii_digit, is_ascii_upper, is_ascii_lower. lia. Qed.

Lemma unquote_quote_byte b rest : b < 256 ->
  unquote_plus_go (quote_byte b ++ rest) 0 = option_map (cons b) (unquote_plus_go rest 0).
Proof.
  intros Hb. unfold quote_byte.
  destruct (url_unreserved b) eqn:Hu.
  - destruct (unreserved_not_special b Hu) as [E1 E2]. cbn [app unquote_plus_go]. rewrite E1, E2. reflexivity.
  - destruct (N.eqb_spec b 32) as [->|Hne].
    + reflexivity.
    + cbn [app unquote_plus_go]. rewrite N.eqb_refl.
      rewrite (hex_val_hexdigit (b / 16)) by lia. rewrite (hex_val_hexdigit (b mod 16)) by lia.
      replace (b / 16 * 16 + b mod 16) with b by lia. reflexivity.
Qed.

Lemma quote_byte_safe b : b < 256 -> forallb url_safe_char (quote_byte b) = true.
Proof.
  intros Hb. unfold quote_byte.
  destruct (url_unreserved b) eqn:Hu.
  - cbn [forallb]. unfold url_safe_char. rewrite Hu. reflexivity.
  - destruct (N.eqb_spec b 32) as [->|Hne]; [reflexivity|].
    cbn [forallb]. rewrite (hexdigit_url_safe (b / 16)) by lia. rewrite (hexdigit_url_safe (b mod 16)) by lia. reflexivity.
Qed.

Lemma unquote_quote bs : forallb (fun b => b <? 256) bs = true -> unquote_plus (quote_plus bs) = Some bs.
Proof.
  unfold unquote_plus, quote_plus. induction bs as [|b r IH]; intros H; [reflexivity|].
  cbn [forallb] in H. apply andb_true_iff in H as [Hb Hr]. apply N.ltb_lt in Hb.
  cbn [flat_map]. rewrite (unquote_quote_byte b _ Hb), (IH Hr). reflexivity.
Qed.

Lemma quote_plus_safe bs : forallb (fun b => b <? 256) bs = true -> forallb url_safe_char (quote_plus bs) = true.
Proof.
  unfold quote_plus. induction bs as [|b r IH]; intros H; [reflexivity|].
  cbn [forallb] in H. apply andb_true_iff in H as [Hb Hr]. apply N.ltb_lt in Hb.
  cbn [flat_map]. rewrite forallb_app, (quote_byte_safe b Hb), (IH Hr). reflexivity.
Qed.

Theorem url_escape_spec s o : url_escape s = Some o -> spec_url s o = true.
Proof.
  unfold url_escape, spec_url. destruct (utf8_encode s) as [bs|] eqn:He; [|discriminate].
  intros H; inversion H; subst o; clear H.
  pose proof (utf8_encode_bytes s bs He) as Hb.
  rewrite (quote_plus_safe bs Hb), (unquote_quote bs Hb), (utf8_roundtrip s bs He), str_eqb_refl. reflexivity.
Qed.

Theorem url_escape_total s : forallb is_scalar s = true -> exists o, url_escape s = Some o.
Proof.
  intros H. destruct (utf8_encode_total s H) as [bs Hbs]. unfold url_escape. rewrite Hbs. eexists; reflexivity.
Qed.

(* ------------------------------------------------------------------------ *)
(* trim                                                                        *)
(* ------------------------------------------------------------------------ *)

Lemma lstrip_split s : exists pre, s = pre ++ lstrip s /\ forallb is_strip_space pre = true.
Proof.
  induction s as [|c r [pre [E F]]]; [exists []; split; reflexivity|].
  cbn [lstrip]. destruct (is_strip_space c) eqn:Hc.
  - exists (c :: pre). split; [cbn [app]; f_equal; exact E | cbn [forallb]; rewrite Hc, F; reflexivity].
  - exists []. split; reflexivity.
Qed.

Lemma lstrip_head s : match lstrip s with [] => true | c :: _ => negb (is_strip_space c) end = true.
Proof.
  induction s as [|c r IH]; [reflexivity|]. cbn [lstrip].
  destruct (is_strip_space c) eqn:Hc; [exact IH|]. rewrite Hc. reflexivity.
Qed.

Lemma firstn_app_len {A} (a b : list A) : firstn (length a) (a ++ b) = a.
Proof. induction a; simpl; [destruct b; reflexivity|f_equal; auto]. Qed.

Theorem trim_spec s : spec_trim s (trim s) = true.
Proof.
  unfold spec_trim, trim.
  destruct (lstrip_split s) as [pre [Es Fpre]].
  set (l := lstrip s) in *.
  destruct (lstrip_split (rev l)) as [post [El Fpost]].
  set (ro := lstrip (rev l)) in *.
  assert (Hl : l = rev ro ++ rev post).
  { rewrite <- (rev_involutive l), El, rev_app_distr. reflexivity. }
  assert (Hcut : (length s - length l)%nat = length pre).
  { rewrite Es at 1. rewrite app_length. lia. }
  rewrite Hcut.
  repeat (apply andb_true_iff; split).
  - apply str_eqb_eq. rewrite Hl at 1. rewrite firstn_app_len. reflexivity.
  - rewrite Hl at 1. rewrite skipn_app_len. rewrite forallb_forall in *. intros x Hx. apply Fpost. apply in_rev. exact Hx.
  - rewrite Es at 1. rewrite firstn_app_len. exact Fpre.
  - destruct (rev ro) as [|c o'] eqn:Ho; [reflexivity|].
    pose proof (lstrip_head s) as Hh. fold l in Hh. rewrite Hl in Hh. cbn [app] in Hh. exact Hh.
  - rewrite rev_involutive. apply lstrip_head.
Qed.

(* ------------------------------------------------------------------------ *)
(* htmlentityreplace: hexadecimal references and the handler                  *)
(* ------------------------------------------------------------------------ *)

Definition le_val (ds : list N) : N := fold_right (fun d acc => d + 16 * acc) 0 ds.
Definition be_val (ds : list N) (acc : N) : N := fold_left (fun a d => a * 16 + d) ds acc.

Lemma hex_digits_val f : forall n, n < 16 ^ N.of_nat f -> f <> O -> le_val (hex_digits_le f n) = n.
Proof.
  induction f as [|f IH]; intros n Hn Hf; [congruence|].
  cbn [hex_digits_le]. destruct (N.eqb_spec (n / 16) 0) as [Hz|Hnz].
  - cbn [le_val fold_right]. lia.
  - assert (Hpow : 16 ^ N.of_nat (S f) = 16 * 16 ^ N.of_nat f).
    { rewrite Nnat.Nat2N.inj_succ, N.pow_succ_r'. reflexivity. }
    rewrite Hpow in Hn.
    assert (Hq : n / 16 < 16 ^ N.of_nat f) by (apply N.div_lt_upper_bound; lia).
    assert (Hf' : f <> O).
    { intros ->. cbn in Hq. lia. }
    cbn [le_val fold_right]. fold (le_val (hex_digits_le f (n / 16))). rewrite (IH _ Hq Hf'). lia.
Qed.

Lemma hex_digits_small f : forall n, Forall (fun d => d < 16) (hex_digits_le f n).
Proof.
  induction f as [|f IH]; intros n; [constructor|]. cbn [hex_digits_le].
  constructor; [lia|]. destruct (n / 16 =? 0); [constructor|apply IH].
Qed.

Lemma hex_digits_len f : forall n, (length (hex_digits_le f n) <= f)%nat.
Proof.
  induction f as [|f IH]; intros n; [simpl; lia|]. cbn [hex_digits_le length].
  destruct (n / 16 =? 0); [simpl; lia|]. specialize (IH (n / 16)). lia.
Qed.

Lemma hex_digits_nonempty f n : f <> O -> hex_digits_le f n <> [].
Proof. destruct f; [congruence|]. intros _. cbn [hex_digits_le]. discriminate. Qed.

Lemma parse_hex_digits ds : Forall (fun d => d < 16) ds -> forall acc,
  parse_num 16 hex_val (map hexdigit_upper ds) acc = Some (be_val ds acc).
Proof.
  induction 1 as [|d ds Hd _ IH]; intros acc; [reflexivity|].
  cbn [map parse_num]. rewrite (hex_val_hexdigit d Hd). rewrite IH. reflexivity.
Qed.

Lemma be_val_rev ds : be_val (rev ds) 0 = le_val ds.
Proof.
  induction ds as [|d ds IH]; [reflexivity|].
  cbn [rev]. unfold be_val. rewrite fold_left_app. cbn [fold_left]. fold (be_val (rev ds) 0).
  rewrite IH. cbn [le_val fold_right]. fold (le_val ds). lia.
Qed.

Lemma to_hex_parse c : c < 16 ^ 16 -> parse_num 16 hex_val (to_hex c) 0 = Some c.
Proof.
  intros Hc. unfold to_hex.
  rewrite parse_hex_digits.
  - rewrite be_val_rev. f_equal. apply (hex_digits_val 16 c); [exact Hc|discriminate].
  - apply Forall_rev. apply hex_digits_small.
Qed.

Definition hexchar_fine (x : N) : bool :=
  negb (x =? 59) && negb (x =? 38) && negb (memN x markup_chars) && (x <? 128).

Lemma hexdigit_fine d : d < 16 -> hexchar_fine (hexdigit_upper d) = true.
Proof.
  intros H.
  assert (C : d = 0 \/ d = 1 \/ d = 2 \/ d = 3 \/ d = 4 \/ d = 5 \/ d = 6 \/ d = 7 \/ d = 8 \/ d = 9 \/
              d = 10 \/ d = 11 \/ d = 12 \/ d = 13 \/ d = 14 \/ d = 15) by lia.
  repeat (destruct C as [->|C]; [reflexivity|]). subst; reflexivity.
Qed.

Lemma to_hex_fine c : forallb hexchar_fine (to_hex c) = true.
Proof.
  unfold to_hex. rewrite forallb_forall. intros x Hx. apply in_map_iff in Hx as [d [<- Hd]].
  apply hexdigit_fine. apply in_rev in Hd.
  pose proof (hex_digits_small 16 c) as F. rewrite Forall_forall in F. apply F. exact Hd.
Qed.

Lemma to_hex_len c : (length (to_hex c) <= 16)%nat.
Proof. unfold to_hex. rewrite map_length, rev_length. apply hex_digits_len. Qed.

Lemma to_hex_nonempty c : to_hex c <> [].
Proof.
  unfold to_hex. intros H. apply map_eq_nil in H.
  assert (E : hex_digits_le 16 c = []) by (rewrite <- (rev_involutive (hex_digits_le 16 c)), H; reflexivity).
  revert E. apply hex_digits_nonempty. discriminate.
Qed.

Lemma numeric_name_ok c : name_ok (35 :: 120 :: to_hex c) = true.
Proof.
  unfold name_ok. apply andb_true_iff; split.
  - cbn [forallb]. change (negb (35 =? 59) && negb (35 =? 38) && negb (memN 35 markup_chars)) with true.
    change (negb (120 =? 59) && negb (120 =? 38) && negb (memN 120 markup_chars)) with true. cbn [andb].
    pose proof (to_hex_fine c) as F. rewrite forallb_forall in *. intros x Hx. specialize (F x Hx).
    unfold hexchar_fine in F. apply andb_true_iff in F as [F _]. exact F.
  - apply Nat.ltb_lt. cbn [length]. pose proof (to_hex_len c). lia.
Qed.

Lemma numeric_lookup c : c < 16 ^ 16 -> ref_lookup (35 :: 120 :: to_hex c) = Some c.
Proof.
  intros Hc. unfold ref_lookup. rewrite N.eqb_refl. rewrite N.eqb_refl. cbn [orb andb].
  destruct (to_hex c) as [|h t] eqn:E; [exfalso; revert E; apply to_hex_nonempty|].
  cbn [negb andb]. rewrite <- E. apply to_hex_parse. exact Hc.
Qed.

Lemma escapable_nonascii c : 128 <= c -> c < 1114112 -> rmem c entity_escapable = true.
Proof.
  intros H1 H2. unfold entity_escapable. cbn [rmem].
  repeat match goal with |- context [if ?b then _ else _] => destruct b eqn:? end; try reflexivity; lia.
Qed.

Theorem handler_replacement c : 128 <= c -> c < 1114112 ->
  exists rep, entity_escape_full [c] = Some rep /\ spec_replacement c rep = true.
Proof.
  intros H1 H2. unfold entity_escape_full. cbn [flat_map]. rewrite (escapable_nonascii c H1 H2), app_nil_r.
  unfold escape_ref. destruct (assocN c codepoint2entity) as [e|] eqn:He.
  - destruct (entity_entry c e He) as [c0 [nm' [-> [_ [_ [_ [Hok [_ [_ [_ [Hl Hascii]]]]]]]]]]].
    rewrite Hascii. eexists; split; [reflexivity|].
    unfold spec_replacement. rewrite Hascii. cbn [andb].
    change (38 :: c0 :: nm' ++ [59]) with (38 :: (c0 :: nm') ++ [59]).
    unfold ref_unescape. rewrite (ref_entity (c0 :: nm') c [] Hok Hl). cbn [ref_unescape_go].
    rewrite str_eqb_refl. reflexivity.
  - assert (Hc16 : c < 16 ^ 16) by (change (16 ^ 16) with 18446744073709551616; lia).
    assert (Hascii : forallb (fun x => x <? 128) (numeric_ref c) = true).
    { unfold numeric_ref. cbn [s2l app]. cbn [forallb].
      change (N_of_ascii "&" <? 128) with true. change (N_of_ascii "#" <? 128) with true.
      change (N_of_ascii "x" <? 128) with true. cbn [andb].
      rewrite forallb_app. cbn [forallb]. change (59 <? 128) with true. rewrite !andb_true_r.
      pose proof (to_hex_fine c) as F. rewrite forallb_forall in *. intros x Hx. specialize (F x Hx).
      unfold hexchar_fine in F. apply andb_true_iff in F as [_ F]. exact F. }
    rewrite Hascii. eexists; split; [reflexivity|].
    unfold spec_replacement. rewrite Hascii. cbn [andb].
    unfold numeric_ref. cbn [s2l app].
    change (N_of_ascii "&") with 38. change (N_of_ascii "#") with 35. change (N_of_ascii "x") with 120.
    change (38 :: 35 :: 120 :: to_hex c ++ [59]) with (38 :: (35 :: 120 :: to_hex c) ++ [59]).
    unfold ref_unescape.
    rewrite (ref_entity (35 :: 120 :: to_hex c) c [] (numeric_name_ok c) (numeric_lookup c Hc16)).
    cbn [ref_unescape_go]. rewrite str_eqb_refl. reflexivity.
Qed.

Definition ascii_encodable (enc : N -> option (list N)) : Prop :=
  forall c, c < 128 -> exists b, enc c = Some b.

Lemma encode_all_ascii enc s : ascii_encodable enc -> forallb (fun x => x <? 128) s = true ->
  exists b, encode_all enc s = Some b.
Proof.
  intros Ha. induction s as [|c r IH]; intros H; [exists []; reflexivity|].
  cbn [forallb] in H. apply andb_true_iff in H as [Hc Hr]. apply N.ltb_lt in Hc.
  destruct (Ha c Hc) as [b Hb]. destruct (IH Hr) as [br Hbr].
  cbn [encode_all]. rewrite Hb, Hbr. eexists; reflexivity.
Qed.

Theorem handler_total enc s : ascii_encodable enc -> forallb (fun c => c <? 1114112) s = true ->
  exists b, encode_replace enc s = Some b.
Proof.
  intros Ha. induction s as [|c r IH]; intros H; [exists []; reflexivity|].
  cbn [forallb] in H. apply andb_true_iff in H as [Hc Hr]. apply N.ltb_lt in Hc.
  destruct (IH Hr) as [br Hbr]. cbn [encode_replace]. rewrite Hbr.
  destruct (enc c) as [b|] eqn:Hb; [eexists; reflexivity|].
  assert (H128 : 128 <= c).
  { destruct (N.lt_ge_cases c 128) as [Hlt|Hge]; [|exact Hge]. destruct (Ha c Hlt) as [b Hb']. congruence. }
  destruct (handler_replacement c H128 Hc) as [rep [Hrep Hspec]]. rewrite Hrep.
  unfold spec_replacement in Hspec. apply andb_true_iff in Hspec as [Hspec _]. apply andb_true_iff in Hspec as [Hascii _].
  destruct (encode_all_ascii enc rep Ha Hascii) as [b2 Hb2]. rewrite Hb2. eexists; reflexivity.
Qed.

(* decode.<enc> returns a str for str and for every other object; for bytes it is the codec's answer *)
Theorem decode_returns_str codec x :
  match x with
  | PStr s => decode_filter codec x = Some s
  | POther s => decode_filter codec x = Some s
  | PBytes b => decode_filter codec x = codec b
  end.
Proof. destruct x; reflexivity. Qed.
