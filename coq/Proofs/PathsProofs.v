(* Proofs/PathsProofs.v -- lemmas behind Properties/C09.v *)
From Coq Require Import Lia.
From MakoV Require Import Lib.Str Model.Paths.
Open Scope N_scope.

Definition no_dd (stk : list str) : Prop := Forall (fun c => c <> dotdot) stk.

Lemma str_eqb_neq a b : str_eqb a b = false <-> a <> b.
Proof.
  split.
  - intros H E. apply str_eqb_eq in E. congruence.
  - intros H. destruct (str_eqb a b) eqn:E; [apply str_eqb_eq in E; contradiction|reflexivity].
Qed.

(* ---- the normalisation loop never pops below the stack it started from when the
        relative-mode result has no ".." ---------------------------------------- *)

Lemma step_no_underflow S c :
  no_dd (norm_step false S c) ->
  no_dd S /\ forall a B, norm_step a (S ++ B) c = norm_step false S c ++ B.
Proof.
  unfold norm_step.
  destruct (is_nil c || str_eqb c dot) eqn:Hskip.
  - intros H. split; [exact H|reflexivity].
  - destruct (str_eqb c dotdot) eqn:Hdd; cbn [negb].
    + destruct S as [|top rest].
      * intros H. inversion H; subst. congruence.
      * destruct (str_eqb top dotdot) eqn:Htop.
        -- intros H. inversion H; subst. congruence.
        -- intros H. split.
           ++ constructor; [apply str_eqb_neq; exact Htop|exact H].
           ++ intros a B. cbn [app]. rewrite Htop. reflexivity.
    + intros H. inversion H; subst. split; [assumption|reflexivity].
Qed.

Lemma run_no_underflow comps : forall S,
  no_dd (run_norm false S comps) ->
  no_dd S /\ forall a B, run_norm a (S ++ B) comps = run_norm false S comps ++ B.
Proof.
  unfold run_norm. induction comps as [|c comps IH]; intros S H.
  - split; [exact H|reflexivity].
  - cbn [fold_left] in *. destruct (IH _ H) as [Hs' Heq].
    destruct (step_no_underflow S c Hs') as [Hs Hstep].
    split; [exact Hs|]. intros a B. rewrite Hstep. apply Heq.
Qed.

(* ---- ".." can only sit at the bottom of a relative-mode stack ---------------- *)

(* bottom-first view: all ".." come first *)
Definition wf (stk : list str) : Prop :=
  exists P D, stk = P ++ D /\ no_dd P /\ Forall (fun c => c = dotdot) D.

Lemma wf_step S c : wf S -> wf (norm_step false S c).
Proof.
  intros [P [D [-> [HP HD]]]]. unfold norm_step.
  destruct (is_nil c || str_eqb c dot); [exists P, D; auto|].
  destruct (str_eqb c dotdot) eqn:Hdd; cbn [negb].
  - destruct P as [|top rest]; cbn [app].
    + destruct D as [|d D'].
      * exists [], [dotdot]. repeat split; constructor; auto.
      * inversion HD; subst. rewrite str_eqb_refl.
        exists [], (dotdot :: dotdot :: D'). repeat split; [constructor|]. constructor; auto.
    + inversion HP; subst. assert (E : str_eqb top dotdot = false) by (apply str_eqb_neq; assumption).
      rewrite E. exists rest, D. auto.
  - exists (c :: P), D. repeat split; auto. constructor; [apply str_eqb_neq; exact Hdd|exact HP].
Qed.

Lemma wf_run comps : forall S, wf S -> wf (run_norm false S comps).
Proof.
  unfold run_norm. induction comps as [|c comps IH]; intros S H; [exact H|].
  cbn [fold_left]. apply IH. apply wf_step. exact H.
Qed.

Lemma wf_nil : wf [].
Proof. exists [], []. repeat split; constructor. Qed.

Lemma join_sep_head sep x r : exists t, join_sep sep (x :: r) = x ++ t.
Proof. destruct r; cbn [join_sep]; [exists []; rewrite app_nil_r; reflexivity|eexists; reflexivity]. Qed.

(* if the rendered relative path does not start with "..", the stack has no ".." *)
Lemma render_no_dd stk :
  wf stk -> starts_with dotdot (join_sep SLASH (rev stk)) = false -> no_dd stk.
Proof.
  intros [P [D [-> [HP HD]]]] H.
  destruct D as [|d D'] using rev_ind.
  - rewrite app_nil_r. exact HP.
  - exfalso. apply Forall_app in HD as [_ Hd]. inversion Hd; subst.
    rewrite app_assoc, rev_app_distr in H. cbn [rev app] in H.
    destruct (join_sep_head SLASH dotdot (rev (P ++ D'))) as [t Ht]. rewrite Ht in H.
    unfold starts_with in H. rewrite strip_prefix_app in H. discriminate.
Qed.

(* ---- split / join ---------------------------------------------------------- *)

Lemma split_on_nonempty sep s : split_on sep s <> [].
Proof.
  induction s as [|c r IH]; cbn [split_on]; [discriminate|].
  destruct (c =? sep); [discriminate|]. destruct (split_on sep r); [congruence|discriminate].
Qed.

Lemma split_app_sep sep a b : split_on sep (a ++ sep :: b) = split_on sep a ++ split_on sep b.
Proof.
  induction a as [|c r IH]; cbn [app split_on].
  - rewrite N.eqb_refl. reflexivity.
  - destruct (c =? sep); [rewrite IH; reflexivity|].
    rewrite IH. destruct (split_on sep r) eqn:E; [exfalso; revert E; apply split_on_nonempty|reflexivity].
Qed.

Lemma run_app a S x y : run_norm a S (x ++ y) = run_norm a (run_norm a S x) y.
Proof. unfold run_norm. apply fold_left_app. Qed.

Lemma is_abs_app d r : d <> [] -> is_abs (d ++ r) = is_abs d.
Proof. destruct d; [congruence|reflexivity]. Qed.

Lemma ends_with_slash_split a : ends_with_slash a = true -> exists a', a = a' ++ [SLASH].
Proof.
  unfold ends_with_slash. destruct (rev a) as [|c r] eqn:E; [discriminate|].
  intros H. apply N.eqb_eq in H. subst c. exists (rev r).
  rewrite <- (rev_involutive a), E. reflexivity.
Qed.

Lemma split_trailing_sep sep a : split_on sep (a ++ [sep]) = split_on sep a ++ [[]].
Proof. rewrite (split_app_sep sep a []). reflexivity. Qed.

Lemma run_skip_nil a S : run_norm a S [[]] = S.
Proof. reflexivity. Qed.

(* the stack of join(d, u) for a relative u *)
Lemma norm_stack_join d u :
  is_abs u = false ->
  norm_stack (join d u) = run_norm (is_abs d) (norm_stack d) (split_on SLASH u).
Proof.
  intros Hu. unfold join. rewrite Hu.
  destruct (is_nil d) eqn:Hnil.
  - destruct d; [|discriminate]. cbn [orb app]. unfold norm_stack at 1. rewrite Hu. reflexivity.
  - assert (Hne : d <> []) by (intros ->; discriminate). cbn [orb].
    destruct (ends_with_slash d) eqn:He.
    + destruct (ends_with_slash_split d He) as [d' ->].
      unfold norm_stack. rewrite (is_abs_app _ u Hne).
      rewrite <- app_assoc. cbn [app]. rewrite split_app_sep, run_app.
      rewrite split_trailing_sep, run_app. reflexivity.
    + unfold norm_stack. rewrite (is_abs_app d (SLASH :: u) Hne).
      rewrite split_app_sep, run_app. reflexivity.
Qed.

(* ---- cleaning ---------------------------------------------------------------- *)

Lemma clean_agree uri : clean_lookup uri = clean_template uri.
Proof.
  unfold clean_lookup, clean_template. induction (unbackslash uri) as [|x r IH]; [reflexivity|].
  cbn [lstrip_c]. destruct (x =? SLASH); [exact IH|reflexivity].
Qed.

Lemma lstrip_not_abs s : is_abs (lstrip_c SLASH s) = false.
Proof.
  induction s as [|x r IH]; [reflexivity|]. cbn [lstrip_c].
  destruct (x =? SLASH) eqn:E; [exact IH|]. cbn [is_abs]. exact E.
Qed.

(* ---- plain components ----------------------------------------------------------- *)

Definition plainP (c : str) : Prop := c <> [] /\ c <> dot /\ c <> dotdot /\ ~ In SLASH c.

Lemma split_no_sep sep s : Forall (fun c => ~ In sep c) (split_on sep s).
Proof.
  induction s as [|x r IH]; cbn [split_on].
  - constructor; [intros []|constructor].
  - destruct (N.eqb_spec x sep) as [->|Hne].
    + constructor; [intros []|exact IH].
    + destruct (split_on sep r) as [|h t]; [constructor; [|constructor]|].
      * intros [E|[]]. congruence.
      * inversion IH; subst. constructor; [|assumption]. intros [E|Hin]; [congruence|contradiction].
Qed.

Lemma step_keeps_shape a S c :
  ~ In SLASH c ->
  Forall (fun x => x <> [] /\ x <> dot /\ ~ In SLASH x) S ->
  Forall (fun x => x <> [] /\ x <> dot /\ ~ In SLASH x) (norm_step a S c).
Proof.
  intros Hc HS. unfold norm_step.
  destruct (is_nil c || str_eqb c dot) eqn:Hskip; [exact HS|].
  apply orb_false_iff in Hskip as [Hn Hd].
  assert (Hshape : c <> [] /\ c <> dot /\ ~ In SLASH c).
  { repeat split; [destruct c; [discriminate|discriminate]|apply str_eqb_neq; exact Hd|exact Hc]. }
  destruct (str_eqb c dotdot); cbn [negb].
  - destruct S as [|top rest].
    + destruct a; [constructor|]. constructor; [|constructor].
      repeat split; try discriminate. intros [E|[E|[]]]; discriminate.
    + destruct (str_eqb top dotdot).
      * constructor; [|exact HS]. repeat split; try discriminate. intros [E|[E|[]]]; discriminate.
      * inversion HS; assumption.
  - constructor; assumption.
Qed.

Lemma run_keeps_shape a comps : forall S,
  Forall (fun c => ~ In SLASH c) comps ->
  Forall (fun x => x <> [] /\ x <> dot /\ ~ In SLASH x) S ->
  Forall (fun x => x <> [] /\ x <> dot /\ ~ In SLASH x) (run_norm a S comps).
Proof.
  unfold run_norm. induction comps as [|c comps IH]; intros S Hc HS; [exact HS|].
  inversion Hc; subst. cbn [fold_left]. apply IH; [assumption|]. apply step_keeps_shape; assumption.
Qed.

Lemma plain_spec c : plain c = true <-> plainP c.
Proof.
  unfold plain, plainP. rewrite !andb_true_iff, !negb_true_iff. split.
  - intros [[[H1 H2] H3] H4]. repeat split.
    + destruct c; [discriminate|discriminate].
    + apply str_eqb_neq; assumption.
    + apply str_eqb_neq; assumption.
    + apply memN_false; assumption.
  - intros [H1 [H2 [H3 H4]]]. repeat split.
    + destruct c; [congruence|reflexivity].
    + apply str_eqb_neq; assumption.
    + apply str_eqb_neq; assumption.
    + apply memN_false; assumption.
Qed.

(* ---- main theorem ------------------------------------------------------------------ *)

Theorem lookup_contained d uri :
  template_check uri = true ->
  exists segs,
    norm_stack (join d (clean_lookup uri)) = segs ++ norm_stack d /\
    is_abs (join d (clean_lookup uri)) = is_abs d /\
    Forall plainP segs.
Proof.
  intros Hck. rewrite clean_agree in *.
  set (u := clean_template uri) in *.
  assert (Hrel : is_abs u = false).
  { unfold u. rewrite <- clean_agree. apply lstrip_not_abs. }
  set (segs := run_norm false [] (split_on SLASH u)).
  assert (Hstack : norm_stack u = segs) by (unfold norm_stack; rewrite Hrel; reflexivity).
  assert (Hnodd : no_dd segs).
  { apply render_no_dd; [apply wf_run, wf_nil|].
    unfold template_check, u_norm in Hck. apply negb_true_iff in Hck. fold u in Hck.
    unfold normpath in Hck. destruct (is_nil u) eqn:Hnil.
    - destruct u; [|discriminate]. reflexivity.
    - assert (Hinit : initial_slashes u = O).
      { unfold initial_slashes. destruct u as [|c r]; [reflexivity|]. cbn [is_abs] in Hrel.
        cbn [count_leading]. rewrite Hrel. reflexivity. }
      rewrite Hinit in Hck. cbn [repeat app] in Hck. rewrite Hstack in Hck.
      destruct (is_nil (join_sep SLASH (rev segs))) eqn:Hp.
      + destruct (join_sep SLASH (rev segs)); [reflexivity|discriminate].
      + exact Hck. }
  exists segs. split; [|split].
  - rewrite (norm_stack_join d u Hrel).
    destruct (run_no_underflow (split_on SLASH u) [] Hnodd) as [_ Heq].
    specialize (Heq (is_abs d) (norm_stack d)). cbn [app] in Heq. exact Heq.
  - unfold join. rewrite Hrel. destruct d as [|c0 d0]; [cbn [is_nil orb app]; exact Hrel|].
    cbn [is_nil orb]. destruct (ends_with_slash (c0 :: d0)); reflexivity.
  - assert (Hshape : Forall (fun x => x <> [] /\ x <> dot /\ ~ In SLASH x) segs).
    { apply run_keeps_shape; [apply split_no_sep|constructor]. }
    unfold no_dd in Hnodd. rewrite Forall_forall in *. intros x Hx. destruct (Hshape x Hx) as [H1 [H2 H3]].
    repeat split; try assumption. apply Hnodd. exact Hx.
Qed.

(* the check is exactly "the normalised URI has no leading .." : both normalisers see
   the same cleaned string, and a failing check means the relative stack has a ".." *)
Theorem check_fails_iff_escapes uri :
  template_check uri = false ->
  starts_with dotdot (normpath (clean_lookup uri)) = true.
Proof.
  unfold template_check, u_norm. rewrite clean_agree. intros H. apply negb_false_iff in H. exact H.
Qed.

Theorem get_template_contained isfile dirs uri f :
  get_template isfile dirs uri = Found f ->
  exists d segs, In d dirs /\ f = normpath (join d (clean_lookup uri)) /\
    norm_stack (join d (clean_lookup uri)) = segs ++ norm_stack d /\
    is_abs (join d (clean_lookup uri)) = is_abs d /\ Forall plainP segs.
Proof.
  induction dirs as [|d ds IH]; cbn [get_template]; [discriminate|].
  destruct (isfile (normpath (join d (clean_lookup uri)))).
  - destruct (template_check uri) eqn:Hck; [|discriminate].
    intros [= <-]. destruct (lookup_contained d uri Hck) as [segs [H1 [H2 H3]]].
    exists d, segs. repeat split; try assumption. left; reflexivity.
  - intros H. destruct (IH H) as [d' [segs [Hin Hrest]]]. exists d', segs. split; [right; exact Hin|exact Hrest].
Qed.

Theorem get_template_rejects isfile dirs uri :
  template_check uri = false ->
  get_template isfile dirs uri = TopLevelLookup \/ get_template isfile dirs uri = LookupExc.
Proof.
  intros Hck. induction dirs as [|d ds IH]; cbn [get_template]; [left; reflexivity|].
  destruct (isfile _); [rewrite Hck; right; reflexivity|exact IH].
Qed.

(* include / inherit / namespace: whatever adjust_uri produces is again just a URI *)
Theorem adjust_then_lookup_contained isfile dirs uri relativeto f :
  get_template isfile dirs (adjust_uri uri relativeto) = Found f ->
  exists d segs, In d dirs /\
    norm_stack (join d (clean_lookup (adjust_uri uri relativeto))) = segs ++ norm_stack d /\
    Forall plainP segs.
Proof.
  intros H. destruct (get_template_contained _ _ _ _ H) as [d [segs [Hin [_ [Hs [_ Hp]]]]]].
  exists d, segs. auto.
Qed.
