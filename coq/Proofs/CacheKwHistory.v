(* Proofs/CacheKwHistory.v -- the cache arguments handed to the backend over any history of renders and invalidations of
   one section: refinement of Cache._get_cache_kw (Model/Cache.v) to the statement's rule *)
From Coq Require Import Lia.
From MakoV Require Import Lib.Str Model.Cache Proofs.CacheProofs.
Open Scope N_scope.

(* one section's history of calls into the cache layer: renders, each bringing the section's cache arguments as evaluated by
   that render, and invalidate_*() calls, which bring none *)
Inductive kwop := KRender (kw : list (str * N)) | KInvalidate.

(* what the backend is handed at each call (the implementation: Cache._get_cache_kw) *)
Fixpoint kw_run (regions : list (str * list (str * N))) (d : str) (tmpl : list (str * N)) (ops : list kwop) : list (list (str * N)) :=
  match ops with
  | [] => []
  | KRender kw :: r => let (a, regions1) := get_cache_kw regions d true tmpl kw in a :: kw_run regions1 d tmpl r
  | KInvalidate :: r => let (a, regions1) := get_cache_kw regions d false tmpl [] in a :: kw_run regions1 d tmpl r
  end.

(* the statement: a render is handed the template's arguments overridden by its own; an invalidate addresses the backend with
   those of the section's last render, or with the template's alone when it has not rendered yet *)
Fixpoint kw_spec (last : option (list (str * N))) (tmpl : list (str * N)) (ops : list kwop) : list (list (str * N)) :=
  match ops with
  | [] => []
  | KRender kw :: r => update tmpl kw :: kw_spec (Some kw) tmpl r
  | KInvalidate :: r => update tmpl (match last with Some kw => kw | None => [] end) :: kw_spec last tmpl r
  end.

Definition agrees (regions : list (str * list (str * N))) (d : str) (tmpl : list (str * N)) (last : option (list (str * N))) : Prop :=
  assocS d regions = match last with Some kw => Some (update tmpl kw) | None => None end.

Lemma kw_run_refines d tmpl : forall ops regions last, agrees regions d tmpl last -> kw_run regions d tmpl ops = kw_spec last tmpl ops.
Proof.
  induction ops as [|o r IH]; intros regions last H; [reflexivity|].
  destruct o as [kw|]; cbn [kw_run kw_spec].
  - unfold get_cache_kw at 1. f_equal. apply IH. unfold agrees. cbn [assocS]. rewrite str_eqb_refl. reflexivity.
  - unfold get_cache_kw at 1. unfold agrees in H. rewrite H. destruct last as [kw|].
    + f_equal. apply IH. exact H.
    + f_equal. apply IH. exact H.
Qed.

Theorem cache_arguments_over_any_history d tmpl ops : kw_run [] d tmpl ops = kw_spec None tmpl ops.
Proof. apply kw_run_refines. reflexivity. Qed.

Example kw_history_nonvacuous :
  kw_run [] (s2l "render_d") [(s2l "type", 1)] [KInvalidate; KRender [(s2l "timeout", 5)]; KInvalidate; KRender [(s2l "timeout", 9)]; KInvalidate]
  = [[(s2l "type", 1)]; [(s2l "timeout", 5); (s2l "type", 1)]; [(s2l "timeout", 5); (s2l "type", 1)]; [(s2l "timeout", 9); (s2l "type", 1)]; [(s2l "timeout", 9); (s2l "type", 1)]].
Proof. vm_compute. reflexivity. Qed.
