(* Proofs/PyScopeGeneral.v -- FindIdentifiers on all programs, nested scopes included: every name the
   code needs from the template's namespace is recorded as undeclared, or else is (wrongly) recorded
   as declared by the block itself *)
From Coq Require Import Lia.
From MakoV Require Import Lib.Str Model.PyScope.
Open Scope N_scope.

Definition mono (s s' : fstate) : Prop :=
  (forall x, In x (declared s) -> In x (declared s')) /\
  (forall x, In x (undeclared s) -> In x (undeclared s')) /\
  in_function s' = in_function s.

Lemma mono_refl s : mono s s. Proof. repeat split; auto. Qed.
Lemma mono_trans a b c : mono a b -> mono b c -> mono a c.
Proof. intros (A1 & A2 & A3) (B1 & B2 & B3). repeat split; [auto|auto|congruence]. Qed.

(* what covers a free name: recorded as declared or undeclared at the end, or local at the start *)
Definition covered (x : N) (s s' : fstate) : Prop := In x (declared s') \/ In x (locals s) \/ In x (undeclared s').

Lemma covered_mono x s s' s'' : covered x s s' -> mono s' s'' -> covered x s s''.
Proof. intros [H|[H|H]] (M1 & M2 & _); [left; auto|right; left; exact H|right; right; auto]. Qed.

Lemma read_name_ok s x : mono s (read_name s x) /\ locals (read_name s x) = locals s /\ covered x s (read_name s x).
Proof.
  unfold read_name, covered. destruct (memN x (declared s) || memN x (locals s)) eqn:E.
  - split; [apply mono_refl|]. split; [reflexivity|]. apply orb_true_iff in E as [E|E]; apply memN_In in E; tauto.
  - cbn. split; [repeat split; auto; intros y Hy; right; exact Hy|]. split; [reflexivity|]. right; right; left; reflexivity.
Qed.

Lemma add_declared_fold t : forall s,
  let s' := fold_left add_declared t s in
  in_function s' = in_function s /\ undeclared s' = undeclared s /\
  (forall x, In x (declared s') <-> In x (declared s) \/ (in_function s = false /\ In x t)) /\
  (forall x, In x (locals s') <-> In x (locals s) \/ (in_function s = true /\ In x t)).
Proof.
  induction t as [|a r IH]; intros s; cbn [fold_left].
  - cbn zeta. split; [reflexivity|]. split; [reflexivity|]. split; intros y; cbn [In]; tauto.
  - destruct (IH (add_declared s a)) as (A & B & C & D). cbn zeta in *. unfold add_declared in *.
    destruct (in_function s) eqn:E; cbn [in_function undeclared declared locals] in *.
    + rewrite A, B. split; [reflexivity|]. split; [reflexivity|]. split; intros y.
      * rewrite C. split; [intros [H|[H _]]; [left; exact H|discriminate]|intros [H|[H _]]; [left; exact H|discriminate]].
      * rewrite D. cbn [In]. split.
        -- intros [[<-|H]|[_ H]]; [right; split; [reflexivity|left; reflexivity]|left; exact H|right; split; [reflexivity|right; exact H]].
        -- intros [H|[_ [<-|H]]]; [left; right; exact H|left; left; reflexivity|right; split; [reflexivity|exact H]].
    + rewrite A, B. split; [reflexivity|]. split; [reflexivity|]. split; intros y.
      * rewrite C. cbn [In]. split.
        -- intros [[<-|H]|[_ H]]; [right; split; [reflexivity|left; reflexivity]|left; exact H|right; split; [reflexivity|right; exact H]].
        -- intros [H|[_ [<-|H]]]; [left; right; exact H|left; left; reflexivity|right; split; [reflexivity|exact H]].
      * rewrite D. split; [intros [H|[H _]]; [left; exact H|discriminate]|intros [H|[H _]]; [left; exact H|discriminate]].
Qed.

Lemma add_declared_fold_locals_top t : forall s, in_function s = false -> locals (fold_left add_declared t s) = locals s.
Proof.
  induction t as [|a r IH]; intros s H; [reflexivity|]. cbn [fold_left]. rewrite IH; unfold add_declared; rewrite H; reflexivity.
Qed.

Lemma add_declared_fold_mono t s : mono s (fold_left add_declared t s).
Proof. destruct (add_declared_fold t s) as (A & B & C & _). cbn zeta in *. repeat split; [intros x H; apply C; left; exact H|rewrite B; auto|exact A]. Qed.

(* ---- expressions ------------------------------------------------------------------------------------ *)
Definition expr_ok (f : nat) : Prop := forall e s,
  mono s (fi_expr f s e) /\ locals (fi_expr f s e) = locals s /\ forall x, In x (free_expr f e) -> covered x s (fi_expr f s e).

Lemma exprs_ok f (IH : expr_ok f) : forall l s,
  mono s (fold_left (fi_expr f) l s) /\ locals (fold_left (fi_expr f) l s) = locals s /\
  forall x, In x (flat_map (free_expr f) l) -> covered x s (fold_left (fi_expr f) l s).
Proof.
  induction l as [|e r IHl]; intros s; cbn [fold_left flat_map].
  - split; [apply mono_refl|]. split; [reflexivity|]. intros x [].
  - destruct (IH e s) as (M1 & L1 & F1). destruct (IHl (fi_expr f s e)) as (M2 & L2 & F2).
    split; [eapply mono_trans; eassumption|]. split; [congruence|].
    intros x Hx. apply in_app_or in Hx as [Hx|Hx].
    + eapply covered_mono; [apply F1; exact Hx|exact M2].
    + destruct (F2 x Hx) as [H|[H|H]]; [left; exact H|right; left; rewrite <- L1; exact H|right; right; exact H].
Qed.

Lemma minus_In x a b : In x (minus a b) <-> In x a /\ ~ In x b.
Proof. unfold minus. rewrite filter_In, negb_true_iff. split; intros [H1 H2]; (split; [exact H1|]); [apply memN_false; exact H2|apply memN_false; exact H2]. Qed.

Lemma expr_ok_all : forall f, expr_ok f.
Proof.
  induction f as [|f IH]; intros e s.
  - cbn. split; [apply mono_refl|]. split; [reflexivity|]. intros x [].
  - destruct e as [x| |l|ps ds b|el tg it ifs]; cbn [fi_expr free_expr].
    + destruct (read_name_ok s x) as (M & L & C). split; [exact M|]. split; [exact L|]. intros y [<-|[]]. exact C.
    + split; [apply mono_refl|]. split; [reflexivity|]. intros x [].
    + apply exprs_ok. exact IH.
    + (* lambda *)
      destruct (exprs_ok f IH ds s) as (M0 & L0 & F0). set (s0 := fold_left (fi_expr f) ds s) in *.
      set (s1 := {| in_function := true; locals := all_params ps ++ locals s0; declared := declared s0; undeclared := undeclared s0 |}).
      destruct (IH b s1) as (M2 & L2 & F2). set (s2 := fi_expr f s1 b) in *.
      destruct M0 as (M0a & M0b & M0c). destruct M2 as (M2a & M2b & M2c). cbn [declared undeclared s1] in M2a, M2b.
      split; [repeat split; cbn [declared undeclared in_function]; [intros x H; apply M2a, M0a, H|intros x H; apply M2b, M0b, H|exact M0c]|].
      split; [cbn [locals]; exact L0|].
      intros x Hx. unfold covered. cbn [declared undeclared]. apply in_app_or in Hx as [Hx|Hx].
      * destruct (F0 x Hx) as [H|[H|H]]; [left; apply M2a; exact H|right; left; exact H|right; right; apply M2b; exact H].
      * apply minus_In in Hx as [Hx Hn]. destruct (F2 x Hx) as [H|[H|H]]; [left; exact H| |right; right; exact H].
        cbn [locals s1] in H. apply in_app_or in H as [H|H]; [contradiction|]. right; left. rewrite <- L0. exact H.
    + (* comprehension *)
      destruct (in_function s) eqn:Ein.
      * destruct (IH it s) as (M1 & L1 & F1). set (s1 := fi_expr f s it) in *.
        destruct (add_declared_fold tg s1) as (A2 & B2 & C2 & D2). cbn zeta in *. set (s2 := fold_left add_declared tg s1) in *.
        destruct (exprs_ok f IH ifs s2) as (M3 & L3 & F3). set (s3 := fold_left (fi_expr f) ifs s2) in *.
        destruct (exprs_ok f IH el s3) as (M4 & L4 & F4). set (s4 := fold_left (fi_expr f) el s3) in *.
        assert (Hin1 : in_function s1 = true) by (destruct M1 as (_ & _ & H); congruence).
        assert (M12 : mono s1 s2) by apply add_declared_fold_mono.
        assert (M14 : mono s1 s4) by (eapply mono_trans; [exact M12|eapply mono_trans; eassumption]).
        destruct M1 as (M1a & M1b & M1c). destruct M14 as (Ma & Mb & Mc).
        split; [repeat split; cbn [declared undeclared in_function]; [intros x H; apply Ma, M1a, H|intros x H; apply Mb, M1b, H|exact M1c]|].
        split; [cbn [locals]; exact L1|].
        intros x Hx. unfold covered. cbn [declared undeclared]. apply in_app_or in Hx as [Hx|Hx].
        -- destruct (F1 x Hx) as [H|[H|H]]; [left; apply Ma; exact H|right; left; exact H|right; right; apply Mb; exact H].
        -- apply minus_In in Hx as [Hx Hn].
           assert (Hloc : forall y, In y (locals s2) -> ~ In y tg -> In y (locals s)).
           { intros y Hy Hny. apply D2 in Hy as [Hy|[_ Hy]]; [rewrite <- L1; exact Hy|contradiction]. }
           apply in_app_or in Hx as [Hx|Hx].
           ++ destruct (F4 x Hx) as [H|[H|H]]; [left; exact H| |right; right; exact H].
              right; left. apply Hloc; [rewrite <- L3; exact H|exact Hn].
           ++ destruct (F3 x Hx) as [H|[H|H]]; [left; destruct M4 as (M4a & _); apply M4a; exact H| |right; right; destruct M4 as (_ & M4b & _); apply M4b; exact H].
              right; left. apply Hloc; [exact H|exact Hn].
      * destruct (exprs_ok f IH el s) as (M1 & L1 & F1). set (s1 := fold_left (fi_expr f) el s) in *.
        assert (M12 : mono s1 (fold_left add_declared tg s1)) by apply add_declared_fold_mono.
        destruct (add_declared_fold tg s1) as (A2 & B2 & C2 & D2). cbn zeta in *. set (s2 := fold_left add_declared tg s1) in *.
        destruct (IH it s2) as (M3 & L3 & F3). set (s3 := fi_expr f s2 it) in *.
        destruct (exprs_ok f IH ifs s3) as (M4 & L4 & F4). set (s4 := fold_left (fi_expr f) ifs s3) in *.
        assert (Hin1 : in_function s1 = false) by (destruct M1 as (_ & _ & H); congruence).
        assert (L2 : forall y, In y (locals s2) <-> In y (locals s1)).
        { intros y. rewrite D2. split; [intros [H|[H _]]; [exact H|congruence]|intros H; left; exact H]. }
        split; [eapply mono_trans; [exact M1|eapply mono_trans; [exact M12|eapply mono_trans; eassumption]]|].
        split.
        { rewrite L4, L3. unfold s2. rewrite (add_declared_fold_locals_top tg s1 Hin1). exact L1. }
        intros x Hx. apply in_app_or in Hx as [Hx|Hx].
        -- destruct (F3 x Hx) as [H|[H|H]].
           ++ left. destruct M4 as (M4a & _). apply M4a. exact H.
           ++ right; left. rewrite <- L1. apply L2. exact H.
           ++ right; right. destruct M4 as (_ & M4b & _). apply M4b. exact H.
        -- apply minus_In in Hx as [Hx Hn]. apply in_app_or in Hx as [Hx|Hx].
           ++ eapply covered_mono; [apply F1; exact Hx|]. eapply mono_trans; [exact M12|eapply mono_trans; eassumption].
           ++ destruct (F4 x Hx) as [H|[H|H]]; [left; exact H| |right; right; exact H].
              right; left. rewrite <- L1. apply L2. rewrite <- L3. exact H.
Qed.

(* ---- statements ---------------------------------------------------------------------------------------- *)
(* what covers a free name of a block: ... or bound by the block itself *)
Definition block_ok (f : nat) : Prop := forall l s,
  let s' := fold_left (fi_stmt f) l s in
  mono s s' /\
  (forall x, In x (locals s) -> In x (locals s')) /\
  (forall x, In x (locals s') -> In x (locals s) \/ In x (binds f l)) /\
  (forall x, In x (free_stmts f l) -> In x (declared s') \/ In x (locals s) \/ In x (binds f l) \/ In x (undeclared s')).

Lemma add_one s a :
  mono s (add_declared s a) /\ (forall x, In x (locals s) -> In x (locals (add_declared s a))) /\
  (forall x, In x (locals (add_declared s a)) -> In x (locals s) \/ x = a).
Proof.
  unfold add_declared. destruct (in_function s) eqn:E; cbn.
  - split; [repeat split; auto|]. split; [intros x H; right; exact H|]. intros x [<-|H]; [right; reflexivity|left; exact H].
  - split; [repeat split; auto; intros x H; right; exact H|]. split; [auto|]. intros x H; left; exact H.
Qed.

Lemma add_fold_block t s :
  let s' := fold_left add_declared t s in
  mono s s' /\ (forall x, In x (locals s) -> In x (locals s')) /\ (forall x, In x (locals s') -> In x (locals s) \/ In x t).
Proof.
  destruct (add_declared_fold t s) as (A & B & C & D). cbn zeta in *. split; [apply add_declared_fold_mono|].
  split; [intros x H; apply D; left; exact H|]. intros x H. apply D in H as [H|[_ H]]; [left; exact H|right; exact H].
Qed.

(* composing two steps of a block *)
Lemma step_compose (fa ba fb bb : list N) s s1 s2 :
  (mono s s1 /\ (forall x, In x (locals s) -> In x (locals s1)) /\ (forall x, In x (locals s1) -> In x (locals s) \/ In x ba) /\
   (forall x, In x fa -> In x (declared s1) \/ In x (locals s) \/ In x ba \/ In x (undeclared s1))) ->
  (mono s1 s2 /\ (forall x, In x (locals s1) -> In x (locals s2)) /\ (forall x, In x (locals s2) -> In x (locals s1) \/ In x bb) /\
   (forall x, In x fb -> In x (declared s2) \/ In x (locals s1) \/ In x bb \/ In x (undeclared s2))) ->
  (mono s s2 /\ (forall x, In x (locals s) -> In x (locals s2)) /\ (forall x, In x (locals s2) -> In x (locals s) \/ In x (ba ++ bb)) /\
   (forall x, In x (fa ++ fb) -> In x (declared s2) \/ In x (locals s) \/ In x (ba ++ bb) \/ In x (undeclared s2))).
Proof.
  intros (M1 & L1 & G1 & F1) (M2 & L2 & G2 & F2). split; [eapply mono_trans; eassumption|]. split; [auto|]. split.
  - intros x H. apply G2 in H as [H|H]; [apply G1 in H as [H|H]|]; rewrite in_app_iff; tauto.
  - intros x H. rewrite in_app_iff. destruct M2 as (M2a & M2b & _). apply in_app_or in H as [H|H].
    + destruct (F1 x H) as [H'|[H'|[H'|H']]]; [left; auto|tauto|tauto|right; right; right; auto].
    + destruct (F2 x H) as [H'|[H'|[H'|H']]]; [tauto| |tauto|tauto]. apply G1 in H' as [H'|H']; tauto.
Qed.

Lemma step_expr f (IHe : expr_ok f) e s :
  let s1 := fi_expr f s e in
  mono s s1 /\ (forall x, In x (locals s) -> In x (locals s1)) /\ (forall x, In x (locals s1) -> In x (locals s) \/ In x []) /\
  (forall x, In x (free_expr f e) -> In x (declared s1) \/ In x (locals s) \/ In x [] \/ In x (undeclared s1)).
Proof.
  destruct (IHe e s) as (M & L & F). cbn zeta. split; [exact M|]. rewrite L. split; [auto|]. split; [auto|].
  intros x H. destruct (F x H) as [H'|[H'|H']]; tauto.
Qed.

Lemma step_adds t s :
  let s1 := fold_left add_declared t s in
  mono s s1 /\ (forall x, In x (locals s) -> In x (locals s1)) /\ (forall x, In x (locals s1) -> In x (locals s) \/ In x t) /\
  (forall x, In x (@nil N) -> In x (declared s1) \/ In x (locals s) \/ In x t \/ In x (undeclared s1)).
Proof. destruct (add_fold_block t s) as (M & L & G). cbn zeta in *. repeat split; try apply M; auto. intros x []. Qed.

Lemma step_id (s : fstate) :
  mono s s /\ (forall x, In x (locals s) -> In x (locals s)) /\ (forall x, In x (locals s) -> In x (locals s) \/ In x []) /\
  (forall x, In x (@nil N) -> In x (declared s) \/ In x (locals s) \/ In x [] \/ In x (undeclared s)).
Proof. split; [apply mono_refl|]. split; [auto|]. split; [auto|]. intros x []. Qed.

Lemma weaken (fa fa' ba ba' : list N) s s1 :
  (forall x, In x fa' -> In x fa) -> (forall x, In x ba -> In x ba') ->
  (mono s s1 /\ (forall x, In x (locals s) -> In x (locals s1)) /\ (forall x, In x (locals s1) -> In x (locals s) \/ In x ba) /\
   (forall x, In x fa -> In x (declared s1) \/ In x (locals s) \/ In x ba \/ In x (undeclared s1))) ->
  (mono s s1 /\ (forall x, In x (locals s) -> In x (locals s1)) /\ (forall x, In x (locals s1) -> In x (locals s) \/ In x ba') /\
   (forall x, In x fa' -> In x (declared s1) \/ In x (locals s) \/ In x ba' \/ In x (undeclared s1))).
Proof.
  intros Hf Hb (M & L & G & F). split; [exact M|]. split; [exact L|]. split.
  - intros x H. apply G in H as [H|H]; [tauto|right; auto].
  - intros x H. destruct (F x (Hf x H)) as [H'|[H'|[H'|H']]]; [tauto|tauto|right; right; left; auto|tauto].
Qed.

Lemma exprs_step f (IHe : expr_ok f) l s :
  let s1 := fold_left (fi_expr f) l s in
  mono s s1 /\ (forall x, In x (locals s) -> In x (locals s1)) /\ (forall x, In x (locals s1) -> In x (locals s) \/ In x []) /\
  (forall x, In x (flat_map (free_expr f) l) -> In x (declared s1) \/ In x (locals s) \/ In x [] \/ In x (undeclared s1)).
Proof.
  destruct (exprs_ok f IHe l s) as (M & L & F). cbn zeta. split; [exact M|]. rewrite L. split; [auto|]. split; [auto|].
  intros x H. destruct (F x H) as [H'|[H'|H']]; tauto.
Qed.

Lemma block_ok_all : forall f, block_ok f.
Proof.
  induction f as [|f IH]; intros l s.
  - (* no fuel: nothing is visited and nothing is free *)
    assert (E : fold_left (fi_stmt 0) l s = s) by (induction l as [|a r IHl]; [reflexivity|exact IHl]).
    cbn zeta. rewrite E. split; [apply mono_refl|]. split; [auto|]. split; [auto|]. intros x [].
  - pose proof (expr_ok_all f) as IHe. revert s. induction l as [|st r IHl]; intros s.
    + cbn. split; [apply mono_refl|]. split; [auto|]. split; [auto|]. intros x [].
    + cbn [fold_left]. cbn zeta. cbn [binds free_stmts flat_map].
      (* the head statement as one step *)
      assert (Hhead : exists fa ba,
        (match st with
         | SExpr e => free_expr f e | SAssign _ e => free_expr f e
         | SFor _ it b o => free_expr f it ++ free_stmts f b ++ free_stmts f o
         | SIf t b o => free_expr f t ++ free_stmts f b ++ free_stmts f o
         | SImport _ => []
         | SDef _ ps defaults body => flat_map (free_expr f) defaults ++ minus (free_stmts f body) (all_params ps ++ binds f body)
         | STryExcept b ty _ h => free_stmts f b ++ (match ty with Some t => free_expr f t | None => [] end) ++ free_stmts f h
         end) = fa /\
        (match st with
         | SExpr _ => [] | SAssign t _ => t | SFor t _ b o => t ++ binds f b ++ binds f o | SIf _ b o => binds f b ++ binds f o
         | SImport n => n | SDef name _ _ _ => [name]
         | STryExcept b _ n h => binds f b ++ (match n with Some x => [x] | None => [] end) ++ binds f h
         end) = ba /\
        (mono s (fi_stmt (S f) s st) /\ (forall x, In x (locals s) -> In x (locals (fi_stmt (S f) s st))) /\
         (forall x, In x (locals (fi_stmt (S f) s st)) -> In x (locals s) \/ In x ba) /\
         (forall x, In x fa -> In x (declared (fi_stmt (S f) s st)) \/ In x (locals s) \/ In x ba \/ In x (undeclared (fi_stmt (S f) s st))))).
      { eexists. eexists. split; [reflexivity|]. split; [reflexivity|].
        destruct st as [e|t e|t it b o|t b o|n|name ps ds body|b ty n h]; cbn [fi_stmt].
        - apply step_expr; exact IHe.
        - eapply weaken; [| |eapply (step_compose (free_expr f e) [] [] t); [apply step_expr; exact IHe|apply step_adds]].
          + intros x H. rewrite app_nil_r. exact H.
          + intros x H. exact H.
        - eapply weaken; [| |eapply (step_compose ((free_expr f it ++ []) ++ free_stmts f b) (([] ++ t) ++ binds f b) (free_stmts f o) (binds f o));
                               [eapply (step_compose (free_expr f it ++ []) ([] ++ t) (free_stmts f b) (binds f b));
                                [eapply (step_compose (free_expr f it) [] [] t); [apply step_expr; exact IHe|apply step_adds]|apply IH]|apply IH]].
          + intros x H. rewrite !in_app_iff in *. cbn [In]. tauto.
          + intros x H. rewrite !in_app_iff in *. cbn [In] in *. tauto.
        - eapply weaken; [| |eapply (step_compose (free_expr f t ++ free_stmts f b) ([] ++ binds f b) (free_stmts f o) (binds f o));
                               [eapply (step_compose (free_expr f t) [] (free_stmts f b) (binds f b)); [apply step_expr; exact IHe|apply IH]|apply IH]].
          + intros x H. rewrite !in_app_iff in *. tauto.
          + intros x H. rewrite !in_app_iff in *. cbn [In] in *. tauto.
        - apply step_adds.
        - (* def *)
          destruct (add_one s name) as (Ma & La & Ga).
          pose proof (exprs_step f IHe ds (add_declared s name)) as (M0 & L0 & G0 & F0). cbn zeta in *.
          set (s0 := fold_left (fi_expr f) ds (add_declared s name)) in *.
          set (s1 := {| in_function := true; locals := all_params ps ++ locals s0; declared := declared s0; undeclared := undeclared s0 |}).
          pose proof (IH body s1) as (M2 & L2 & G2 & F2). cbn zeta in *. set (s2 := fold_left (fi_stmt f) body s1) in *.
          assert (Ms0 : mono s s0) by (eapply mono_trans; eassumption).
          destruct Ms0 as (Ms0a & Ms0b & Ms0c). destruct M2 as (M2a & M2b & M2c). cbn [declared undeclared s1] in M2a, M2b.
          split; [repeat split; cbn [declared undeclared in_function]; [intros x H; apply M2a, Ms0a, H|intros x H; apply M2b, Ms0b, H|exact Ms0c]|].
          cbn [locals].
          assert (Hl0 : forall x, In x (locals s0) -> In x (locals s) \/ x = name).
          { intros x H. apply G0 in H as [H|[]]. apply Ga. exact H. }
          split; [intros x H; apply L0, La, H|]. split; [intros x H; apply Hl0 in H as [H|E]; [left; exact H|subst x; right; left; reflexivity]|].
          intros x Hx. cbn [declared undeclared In]. apply in_app_or in Hx as [Hx|Hx].
          + destruct (F0 x Hx) as [H|[H|[[]|H]]]; [left; apply M2a; exact H| |right; right; right; apply M2b; exact H].
            apply Ga in H as [H|E]; [right; left; exact H|subst x; right; right; left; left; reflexivity].
          + apply minus_In in Hx as [Hx Hn]. rewrite in_app_iff in Hn.
            destruct (F2 x Hx) as [H|[H|[H|H]]]; [left; exact H| |tauto|right; right; right; exact H].
            cbn [locals s1] in H. apply in_app_or in H as [H|H]; [tauto|]. apply Hl0 in H as [H|E]; [right; left; exact H|subst x; right; right; left; left; reflexivity].
        - (* try / except *)
          set (s1 := fold_left (fi_stmt f) b s).
          set (s2 := match n with Some n0 => add_declared s1 n0 | None => s1 end).
          set (s3 := match ty with Some t => fi_expr f s2 t | None => s2 end).
          assert (P2 : mono s1 s2 /\ (forall x, In x (locals s1) -> In x (locals s2)) /\
                       (forall x, In x (locals s2) -> In x (locals s1) \/ In x (match n with Some x0 => [x0] | None => [] end)) /\
                       (forall x, In x (@nil N) -> In x (declared s2) \/ In x (locals s1) \/ In x (match n with Some x0 => [x0] | None => [] end) \/ In x (undeclared s2))).
          { subst s2. destruct n as [n0|]; [|apply step_id]. apply (step_adds [n0] s1). }
          assert (P3 : mono s2 s3 /\ (forall x, In x (locals s2) -> In x (locals s3)) /\ (forall x, In x (locals s3) -> In x (locals s2) \/ In x []) /\
                       (forall x, In x (match ty with Some t => free_expr f t | None => [] end) -> In x (declared s3) \/ In x (locals s2) \/ In x [] \/ In x (undeclared s3))).
          { subst s3. destruct ty as [t|]; [|apply step_id]. apply step_expr. exact IHe. }
          eapply weaken; [| |eapply (step_compose _ _ (free_stmts f h) (binds f h));
                               [eapply (step_compose _ _ _ _ s s2 s3);
                                [eapply (step_compose (free_stmts f b) (binds f b) [] _ s s1 s2); [apply IH|exact P2]|exact P3]|apply IH]].
          + intros x H. rewrite !in_app_iff in *. cbn [In]. tauto.
          + intros x H. rewrite !in_app_iff in *. cbn [In] in *. tauto. }
      destruct Hhead as (fa & ba & Efa & Eba & Phead). rewrite Efa, Eba.
      exact (step_compose fa ba (free_stmts (S f) r) (binds (S f) r) s (fi_stmt (S f) s st) _ Phead (IHl (fi_stmt (S f) s st))).
Qed.

(* for every program and every depth -- nested defs, lambdas with every parameter kind and defaults,
   comprehensions, loops, try blocks --: every name the code needs from the template's namespace is
   recorded as undeclared, unless the analysis records it as declared by the block *)
Theorem needed_names_demanded_or_declared n code x :
  In x (needs_f n code) -> In x (snd (find_identifiers_f n code)) \/ In x (fst (find_identifiers_f n code)).
Proof.
  unfold needs_f, find_identifiers_f. cbn [fst snd]. intros H. apply minus_In in H as [Hf Hb].
  destruct (block_ok_all n code f0) as (_ & _ & _ & F). cbn zeta in F.
  destruct (F x Hf) as [H|[[]|[H|H]]]; [right; exact H|contradiction|left; exact H].
Qed.
