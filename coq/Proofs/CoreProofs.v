(* Proofs/CoreProofs.v -- the render state is consistent after every construct, in every outcome *)
From Coq Require Import Lia.
From MakoV Require Import Lib.Str Model.Core.

(* only the buffer on top has grown; the caller stack is the same *)
Definition grows (s s' : state) : Prop :=
  callers s' = callers s /\ exists b r x, bufs s = b :: r /\ bufs s' = (b ++ x) :: r.

Lemma grows_refl s : bufs s <> [] -> grows s s.
Proof. intros H. split; [reflexivity|]. destruct (bufs s) as [|b r] eqn:E; [congruence|]. exists b, r, []. rewrite app_nil_r. split; reflexivity. Qed.

Lemma grows_trans a b c : grows a b -> grows b c -> grows a c.
Proof.
  intros [H1 (b1 & r1 & x1 & E1 & E1')] [H2 (b2 & r2 & x2 & E2 & E2')]. split; [congruence|].
  rewrite E1' in E2. injection E2 as <- <-. exists b1, r1, (x1 ++ x2). split; [exact E1|]. rewrite E2', app_assoc. reflexivity.
Qed.

Lemma grows_nonempty s s' : grows s s' -> bufs s' <> [] /\ length (bufs s') = length (bufs s).
Proof. intros [_ (b & r & x & E & E')]. rewrite E, E'. split; [discriminate|reflexivity]. Qed.

Lemma write_top s t : bufs s <> [] -> grows s (write s (writer_of s) t) /\ nextcaller (write s (writer_of s) t) = nextcaller s.
Proof.
  intros H. unfold write, writer_of. rewrite PeanoNat.Nat.sub_diag. cbn [bufs callers nextcaller]. split; [|reflexivity].
  split; [reflexivity|]. destruct (bufs s) as [|b r]; [congruence|]. exists b, r, t. split; reflexivity.
Qed.

Section Inv.
Variable defs : list def.
Variable ex : nat -> option cref -> node -> state -> state * outcome * list obs.
(* the induction hypothesis on the node interpreter *)
Hypothesis ex_ok : forall w me n s, nextcaller s = None -> bufs s <> [] -> w = writer_of s ->
  grows s (fst (fst (ex w me n s))) /\ nextcaller (fst (fst (ex w me n s))) = None.

Lemma run_nodes_ok l : forall w me s, nextcaller s = None -> bufs s <> [] -> w = writer_of s ->
  grows s (fst (fst (run_nodes ex w me l s))) /\ nextcaller (fst (fst (run_nodes ex w me l s))) = None.
Proof.
  induction l as [|n r IH]; intros w me s Hn Hb Hw; cbn [run_nodes].
  - cbn [fst]. split; [apply grows_refl; exact Hb|exact Hn].
  - destruct (ex_ok w me n s Hn Hb Hw) as [G1 N1]. destruct (ex w me n s) as [[s1 o1] t1]. cbn [fst] in *.
    destruct (grows_nonempty _ _ G1) as [Hb1 Hl1].
    assert (Hw1 : w = writer_of s1) by (unfold writer_of in *; congruence).
    destruct o1; cbn [fst]; try (split; assumption).
    destruct (IH w me s1 N1 Hb1 Hw1) as [G2 N2]. destruct (run_nodes ex w me r s1) as [[s2 o2] t2]. cbn [fst] in *.
    split; [eapply grows_trans; eassumption|exact N2].
Qed.

(* a def call: whatever nextcaller was on entry it is again on exit, the caller stack is the same and
   only the buffer on top has grown -- in every outcome *)
Lemma call_def_ok d s : bufs s <> [] ->
  let r := call_def ex d s in
  grows s (fst (fst (fst r))) /\ nextcaller (fst (fst (fst r))) = nextcaller s.
Proof.
  intros Hb. unfold call_def, push_frame. cbn zeta.
  set (s1 := {| bufs := bufs s; callers := nextcaller s :: callers s; nextcaller := None |}).
  destruct (d_buffered d || d_filtered d) eqn:Ebf.
  - (* a buffer of its own *)
    set (s2 := push_buffer s1).
    assert (Hn2 : nextcaller s2 = None) by reflexivity.
    assert (Hb2 : bufs s2 <> []) by discriminate.
    destruct (run_nodes_ok (d_body d) (writer_of s2) (nextcaller s) s2 Hn2 Hb2 eq_refl) as [G N].
    destruct (run_nodes ex (writer_of s2) (nextcaller s) (d_body d) s2) as [[s3 o3] t3]. cbn [fst] in *.
    destruct G as [Hc (b & r & x & E & E')]. cbn in E. injection E as <- <-.
    assert (Hpop : pop_buffer s3 = ([] ++ x, {| bufs := bufs s; callers := callers s3; nextcaller := nextcaller s3 |})).
    { unfold pop_buffer. rewrite E'. reflexivity. }
    assert (Hfin : forall s4, s4 = {| bufs := bufs s; callers := callers s3; nextcaller := nextcaller s3 |} ->
                   grows s (pop_frame s4) /\ nextcaller (pop_frame s4) = nextcaller s /\ bufs (pop_frame s4) = bufs s).
    { intros s4 ->. unfold pop_frame. cbn [callers bufs nextcaller]. rewrite Hc. cbn [callers s2 s1 push_buffer bufs nextcaller].
      split; [|split; reflexivity]. split; [reflexivity|]. cbn [bufs].
      destruct (bufs s) as [|b0 r0]; [congruence|]. exists b0, r0, []. rewrite app_nil_r. split; reflexivity. }
    destruct (d_buffered d).
    + rewrite Hpop. destruct (Hfin _ eq_refl) as (G & N' & _). destruct o3; cbn [fst]; split; assumption.
    + cbn [orb] in Ebf. rewrite Ebf. rewrite Hpop. destruct (Hfin _ eq_refl) as (G & N' & Hbs).
      destruct o3; cbn [fst]; try (split; assumption).
      set (s5 := pop_frame _) in *.
      assert (Hb5 : bufs s5 <> []) by (rewrite Hbs; exact Hb).
      destruct (write_top s5 (the_filter ([] ++ x)) Hb5) as [G' N''].
      split; [eapply grows_trans; eassumption|congruence].
  - (* no buffer of its own *)
    apply orb_false_iff in Ebf as [E1 E2]. rewrite E1, E2.
    assert (Hn1 : nextcaller s1 = None) by reflexivity.
    assert (Hb1 : bufs s1 <> []) by exact Hb.
    destruct (run_nodes_ok (d_body d) (writer_of s1) (nextcaller s) s1 Hn1 Hb1 eq_refl) as [G N].
    destruct (run_nodes ex (writer_of s1) (nextcaller s) (d_body d) s1) as [[s3 o3] t3]. cbn [fst] in *.
    destruct G as [Hc (b & r & x & E & E')]. cbn [bufs s1] in E.
    assert (Hfin : grows s (pop_frame s3) /\ nextcaller (pop_frame s3) = nextcaller s).
    { unfold pop_frame. rewrite Hc. cbn [callers s1 bufs nextcaller]. split; [|reflexivity]. split; [reflexivity|].
      exists b, r, x. split; assumption. }
    destruct o3; cbn [fst]; exact Hfin.
Qed.
End Inv.

(* for every set of defs, every construct, every state inside a render function (nextcaller clear,
   the writer bound to the buffer on top) and every outcome -- normal, return, exception: the caller
   stack is what it was, nextcaller is clear, no buffer was added or lost, and only the buffer on top
   has grown *)
Theorem render_state_consistent defs : forall fuel w me n s,
  nextcaller s = None -> bufs s <> [] -> w = writer_of s ->
  grows s (fst (fst (exec defs fuel w me n s))) /\ nextcaller (fst (fst (exec defs fuel w me n s))) = None.
Proof.
  induction fuel as [|f IH]; intros w me n s Hn Hb Hw.
  - cbn [exec fst]. split; [apply grows_refl; exact Hb|exact Hn].
  - destruct n; cbn [exec].
    + cbn [fst]. subst w. destruct (write_top s s0 Hb) as [G N]. split; [exact G|congruence].
    + cbn [fst]. split; [apply grows_refl; exact Hb|exact Hn].
    + cbn [fst]. split; [apply grows_refl; exact Hb|exact Hn].
    + cbn [fst]. split; [apply grows_refl; exact Hb|exact Hn].
    + destruct (nth_error defs d) as [df|]; [|cbn [fst]; split; [apply grows_refl; exact Hb|exact Hn]].
      destruct (call_def_ok (exec defs f) IH df s Hb) as [G N]. destruct (call_def (exec defs f) df s) as [[[s1 o1] t1] v]. cbn [fst] in *.
      rewrite Hn in N. destruct o1; cbn [fst]; try (split; assumption).
      destruct (grows_nonempty _ _ G) as [Hb1 Hl1].
      assert (Hw1 : w = writer_of s1) by (unfold writer_of in *; congruence). subst w. rewrite Hw1.
      destruct (write_top s1 v Hb1) as [G' N']. split; [eapply grows_trans; eassumption|congruence].
    + destruct (nth_error defs d) as [df|]; [|cbn [fst]; split; [apply grows_refl; exact Hb|exact Hn]].
      assert (Hbp : bufs (push_buffer s) <> []) by discriminate.
      destruct (call_def_ok (exec defs f) IH df (push_buffer s) Hbp) as [G N].
      destruct (call_def (exec defs f) df (push_buffer s)) as [[[s1 o1] t1] v]. cbn [fst] in *.
      destruct G as [Hc (b & r & x & E & E')]. cbn in E. injection E as <- <-.
      unfold pop_buffer. rewrite E'.
      set (s2 := {| bufs := bufs s; callers := callers s1; nextcaller := nextcaller s1 |}).
      assert (G2 : grows s s2).
      { unfold grows, s2. cbn [bufs callers]. split; [exact Hc|]. destruct (bufs s) as [|b0 r0]; [congruence|]. exists b0, r0, []. rewrite app_nil_r. split; reflexivity. }
      assert (N2 : nextcaller s2 = None) by (cbn; rewrite N; exact Hn).
      destruct o1; cbn [fst]; try (split; assumption).
      assert (Hb2 : bufs s2 <> []) by exact Hb.
      assert (Hw2 : w = writer_of s2) by (subst w; reflexivity). rewrite Hw2.
      destruct (write_top s2 ([] ++ x) Hb2) as [G' N']. split; [eapply grows_trans; eassumption|congruence].
    + destruct (nth_error defs d) as [df|]; [|cbn [fst]; split; [apply grows_refl; exact Hb|exact Hn]].
      rewrite Hn.
      set (s0 := set_next s (Some (CRef body me))).
      assert (Hb0 : bufs s0 <> []) by exact Hb.
      destruct (call_def_ok (exec defs f) IH df s0 Hb0) as [G N].
      destruct (call_def (exec defs f) df s0) as [[[s1 o1] t1] v]. cbn [fst] in *.
      assert (G1 : grows s s1) by exact G.
      destruct (grows_nonempty _ _ G1) as [Hb1 Hl1].
      assert (Hsn : forall s', grows s s' -> grows s (set_next s' None) /\ nextcaller (set_next s' None) = None).
      { intros s' [Hc' Hx]. split; [|reflexivity]. split; [exact Hc'|exact Hx]. }
      destruct o1; cbn [fst]; try (apply Hsn; exact G1).
      assert (Hw1 : w = writer_of s1) by (unfold writer_of in *; congruence). rewrite Hw1.
      destruct (write_top s1 v Hb1) as [G' _]. apply Hsn. eapply grows_trans; eassumption.
    + destruct me as [[body outer]|]; try (cbn [fst]; split; [apply grows_refl; exact Hb|exact Hn]).
      destruct (run_nodes_ok (exec defs f) IH body (writer_of s) outer s Hn Hb eq_refl) as [G N].
      destruct (run_nodes (exec defs f) (writer_of s) outer body s) as [[s1 o1] t1]. cbn [fst] in *.
      destruct o1; cbn [fst]; split; assumption.
    + destruct (run_nodes_ok (exec defs f) IH body w me s Hn Hb Hw) as [G N].
      destruct (run_nodes (exec defs f) w me body s) as [[s1 o1] t1]. cbn [fst] in *.
      destruct o1; cbn [fst]; try (split; assumption).
      destruct (grows_nonempty _ _ G) as [Hb1 Hl1].
      assert (Hw1 : w = writer_of s1) by (unfold writer_of in *; congruence).
      destruct (run_nodes_ok (exec defs f) IH handler w me s1 N Hb1 Hw1) as [G2 N2].
      destruct (run_nodes (exec defs f) w me handler s1) as [[s2 o2] t2]. cbn [fst] in *.
      split; [eapply grows_trans; eassumption|exact N2].
Qed.

(* ---- corollaries ------------------------------------------------------------------------------------- *)
(* caller, the caller stack and nextcaller after any construct -- a call with content included, however
   it ends -- are what they were *)
Theorem caller_restored defs fuel w me n s :
  nextcaller s = None -> bufs s <> [] -> w = writer_of s ->
  let s' := fst (fst (exec defs fuel w me n s)) in
  callers s' = callers s /\ nextcaller s' = None /\ length (bufs s') = length (bufs s) /\ tl (bufs s') = tl (bufs s).
Proof.
  intros Hn Hb Hw. destruct (render_state_consistent defs fuel w me n s Hn Hb Hw) as [[Hc (b & r & x & E & E')] N].
  cbn zeta. rewrite E, E'. repeat split; assumption.
Qed.

(* a def with a buffer of its own that does not end normally leaves every buffer exactly as it was:
   the partial content of the abandoned buffer is discarded, nothing leaks below *)
Theorem abandoned_buffer_discarded defs f w me d df s :
  nth_error defs d = Some df -> d_buffered df || d_filtered df = true ->
  nextcaller s = None -> bufs s <> [] -> w = writer_of s ->
  snd (fst (exec defs (S f) w me (NCall d) s)) <> ONormal ->
  bufs (fst (fst (exec defs (S f) w me (NCall d) s))) = bufs s.
Proof.
  intros Hd Hbf Hn Hb Hw. cbn [exec]. rewrite Hd. unfold call_def, push_frame. rewrite Hbf.
  set (s1 := {| bufs := bufs s; callers := nextcaller s :: callers s; nextcaller := None |}).
  set (s2 := push_buffer s1).
  destruct (run_nodes_ok (exec defs f) (render_state_consistent defs f) (d_body df) (writer_of s2) (nextcaller s) s2 eq_refl ltac:(discriminate) eq_refl) as [G N].
  destruct (run_nodes (exec defs f) (writer_of s2) (nextcaller s) (d_body df) s2) as [[s3 o3] t3]. cbn [fst] in *.
  destruct G as [Hc (b & r & x & E & E')]. cbn in E. injection E as <- <-.
  assert (Hpop : pop_buffer s3 = ([] ++ x, {| bufs := bufs s; callers := callers s3; nextcaller := nextcaller s3 |})).
  { unfold pop_buffer. rewrite E'. reflexivity. }
  assert (Hpf : bufs (pop_frame {| bufs := bufs s; callers := callers s3; nextcaller := nextcaller s3 |}) = bufs s).
  { unfold pop_frame. cbn [callers]. rewrite Hc. reflexivity. }
  destruct (d_buffered df).
  - rewrite Hpop. destruct o3; cbn [fst snd]; intros Ho; try exact Hpf; congruence.
  - cbn [orb] in Hbf. rewrite Hbf, Hpop. destruct o3; cbn [fst snd]; intros Ho; try exact Hpf; congruence.
Qed.

(* ---- what a def made of text writes, by kind --------------------------------------------------------- *)
Definition texts (l : list str) : list node := map NText l.

Lemma exec_text defs f w me t s : exec defs (S f) w me (NText t) s = (write s w t, ONormal, []).
Proof. reflexivity. Qed.

Lemma run_texts defs f me : forall l b r cs nx,
  run_nodes (exec defs (S f)) (S (length r)) me (texts l) {| bufs := b :: r; callers := cs; nextcaller := nx |} =
    ({| bufs := (b ++ concat l) :: r; callers := cs; nextcaller := nx |}, ONormal, []).
Proof.
  induction l as [|t l IH]; intros b r cs nx.
  - cbn. rewrite app_nil_r. reflexivity.
  - unfold texts. cbn [map run_nodes]. rewrite exec_text. unfold write. cbn [bufs callers nextcaller length]. rewrite PeanoNat.Nat.sub_diag. cbn [write_at].
    fold (texts l). rewrite (IH (b ++ t) r cs nx). cbn [concat app]. rewrite app_assoc. reflexivity.
Qed.

Lemma call_def_texts defs f l buffered filtered b r cs nx :
  call_def (exec defs (S f)) {| d_body := texts l; d_buffered := buffered; d_filtered := filtered |} {| bufs := b :: r; callers := cs; nextcaller := nx |} =
    if buffered then ({| bufs := b :: r; callers := cs; nextcaller := nx |}, ONormal, [], if filtered then the_filter (concat l) else concat l)
    else if filtered then ({| bufs := (b ++ the_filter (concat l)) :: r; callers := cs; nextcaller := nx |}, ONormal, [], [])
    else ({| bufs := (b ++ concat l) :: r; callers := cs; nextcaller := nx |}, ONormal, [], []).
Proof.
  unfold call_def, push_frame. cbn [d_buffered d_filtered d_body bufs callers nextcaller].
  destruct buffered, filtered; cbn [orb].
  - unfold push_buffer, writer_of. cbn [bufs callers nextcaller]. change (length ([] :: b :: r)) with (S (length (b :: r))).
    rewrite run_texts. unfold pop_buffer, pop_frame. cbn. reflexivity.
  - unfold push_buffer, writer_of. cbn [bufs callers nextcaller]. change (length ([] :: b :: r)) with (S (length (b :: r))).
    rewrite run_texts. unfold pop_buffer, pop_frame. cbn. reflexivity.
  - unfold push_buffer, writer_of. cbn [bufs callers nextcaller]. change (length ([] :: b :: r)) with (S (length (b :: r))).
    rewrite run_texts. unfold pop_buffer, pop_frame, write, writer_of. cbn [bufs callers nextcaller length]. rewrite PeanoNat.Nat.sub_diag. cbn. reflexivity.
  - unfold writer_of. cbn [bufs callers nextcaller]. change (length (b :: r)) with (S (length r)).
    rewrite run_texts. unfold pop_frame. cbn. reflexivity.
Qed.

(* calling a def writes its body at the point of the call; a buffered def returns its content, which
   the expression then writes at the same point; a filtered def passes its whole content once through
   the filter *)
Theorem def_call_writes_in_place defs f me d l buffered filtered b r cs :
  nth_error defs d = Some {| d_body := texts l; d_buffered := buffered; d_filtered := filtered |} ->
  exec defs (S (S f)) (S (length r)) me (NCall d) {| bufs := b :: r; callers := cs; nextcaller := None |} =
    ({| bufs := (b ++ (if filtered then the_filter (concat l) else concat l)) :: r; callers := cs; nextcaller := None |}, ONormal, []).
Proof.
  intros Hd. remember (S f) as g eqn:Eg. cbn [exec]. rewrite Hd. subst g. rewrite call_def_texts.
  destruct buffered, filtered; unfold write; cbn [bufs callers nextcaller length]; rewrite PeanoNat.Nat.sub_diag; cbn [write_at]; rewrite ?app_nil_r; reflexivity.
Qed.

(* capture returns what the def would have written and leaves the output as it was; the value is then
   written by the expression it stands in *)
Theorem capture_leaves_output defs f me d l b r cs :
  nth_error defs d = Some {| d_body := texts l; d_buffered := false; d_filtered := false |} ->
  exec defs (S (S f)) (S (length r)) me (NCapture d) {| bufs := b :: r; callers := cs; nextcaller := None |} =
    ({| bufs := (b ++ concat l) :: r; callers := cs; nextcaller := None |}, ONormal, []).
Proof.
  intros Hd. remember (S f) as g eqn:Eg. cbn [exec]. rewrite Hd. subst g. unfold push_buffer. cbn [bufs callers nextcaller].
  rewrite call_def_texts. unfold pop_buffer, write. cbn [bufs callers nextcaller length app]. rewrite PeanoNat.Nat.sub_diag. cbn [write_at]. reflexivity.
Qed.
