(* Proofs/EmitOrder.v -- the sequence of hoisted lines is a function of the sets of names (PYTHONHASHSEED clause of C08) *)
From Coq Require Import Permutation Sorting.Sorted Lia.
From MakoV Require Import Lib.Str Gen.Unicode Model.Paths8.
Open Scope N_scope.

Lemma str_leb_total a : forall b, str_leb a b = true \/ str_leb b a = true.
Proof.
  induction a as [|x a IH]; intros b; [left; reflexivity|].
  destruct b as [|y b]; [right; reflexivity|]. cbn [str_leb].
  destruct (x <? y) eqn:E1; [left; reflexivity|]. destruct (y <? x) eqn:E2; [right; reflexivity|].
  apply IH.
Qed.

Lemma str_leb_antisym a : forall b, str_leb a b = true -> str_leb b a = true -> a = b.
Proof.
  induction a as [|x a IH]; intros b H1 H2.
  - destruct b; [reflexivity|discriminate].
  - destruct b as [|y b]; [discriminate|]. cbn [str_leb] in H1, H2.
    destruct (x <? y) eqn:E1.
    + apply N.ltb_lt in E1. destruct (y <? x) eqn:E2; [apply N.ltb_lt in E2; lia|discriminate].
    + destruct (y <? x) eqn:E2; [discriminate|].
      apply N.ltb_ge in E1. apply N.ltb_ge in E2. assert (x = y) by lia. subst y. f_equal. apply IH; assumption.
Qed.

Lemma str_leb_trans a : forall b c, str_leb a b = true -> str_leb b c = true -> str_leb a c = true.
Proof.
  induction a as [|x a IH]; intros b c H1 H2; [reflexivity|].
  destruct b as [|y b]; [discriminate|]. destruct c as [|z c]; [destruct (y :: b); discriminate|].
  cbn [str_leb] in *.
  destruct (x <? y) eqn:E1.
  - apply N.ltb_lt in E1. destruct (y <? z) eqn:E2.
    + apply N.ltb_lt in E2. assert (E : (x <? z) = true) by (apply N.ltb_lt; lia). rewrite E. reflexivity.
    + destruct (z <? y) eqn:E3; [discriminate|]. apply N.ltb_ge in E2. apply N.ltb_ge in E3.
      assert (E : (x <? z) = true) by (apply N.ltb_lt; lia). rewrite E. reflexivity.
  - destruct (y <? x) eqn:E1'; [discriminate|]. apply N.ltb_ge in E1. apply N.ltb_ge in E1'. assert (x = y) by lia. subst y.
    destruct (x <? z) eqn:E2; [reflexivity|]. destruct (z <? x) eqn:E3; [discriminate|].
    eapply IH; eassumption.
Qed.

Definition sle (a b : str) : Prop := str_leb a b = true.

Lemma insert_perm x l : Permutation (x :: l) (insert_s x l).
Proof.
  induction l as [|y r IH]; cbn [insert_s]; [apply Permutation_refl|].
  destruct (str_leb x y); [apply Permutation_refl|].
  eapply perm_trans; [apply perm_swap|]. apply perm_skip. exact IH.
Qed.

Lemma sort_perm l : Permutation l (sort_s l).
Proof.
  induction l as [|x r IH]; cbn [sort_s fold_right]; [apply perm_nil|].
  eapply perm_trans; [apply perm_skip; exact IH|]. apply insert_perm.
Qed.

Lemma insert_sorted x l : StronglySorted sle l -> StronglySorted sle (insert_s x l).
Proof.
  induction 1 as [|y r Hs IH Hall]; cbn [insert_s].
  - constructor; [constructor|constructor].
  - destruct (str_leb x y) eqn:E.
    + constructor; [constructor; assumption|]. constructor; [exact E|].
      rewrite Forall_forall in *. intros z Hz. eapply str_leb_trans; [exact E|]. apply Hall. exact Hz.
    + constructor; [exact IH|].
      assert (Hyx : sle y x) by (destruct (str_leb_total x y) as [H|H]; [congruence|exact H]).
      rewrite Forall_forall in *. intros z Hz.
      apply (Permutation_in _ (Permutation_sym (insert_perm x r))) in Hz. destruct Hz as [<-|Hz]; [exact Hyx|apply Hall; exact Hz].
Qed.

Lemma sort_sorted l : StronglySorted sle (sort_s l).
Proof. induction l as [|x r IH]; cbn [sort_s fold_right]; [constructor|apply insert_sorted; exact IH]. Qed.

(* a sorted list is determined by its elements *)
Lemma sorted_perm_unique l1 : forall l2, StronglySorted sle l1 -> StronglySorted sle l2 -> Permutation l1 l2 -> l1 = l2.
Proof.
  induction l1 as [|a t1 IH]; intros l2 S1 S2 P.
  - apply Permutation_nil in P. subst. reflexivity.
  - destruct l2 as [|b t2]; [apply Permutation_sym, Permutation_nil in P; discriminate|].
    inversion S1 as [|? ? S1' A1]; subst. inversion S2 as [|? ? S2' A2]; subst.
    rewrite Forall_forall in A1, A2.
    assert (Hab : a = b).
    { assert (Ia : In a (b :: t2)) by (apply (Permutation_in _ P); left; reflexivity).
      assert (Ib : In b (a :: t1)) by (apply (Permutation_in _ (Permutation_sym P)); left; reflexivity).
      destruct Ia as [->|Ia]; [reflexivity|]. destruct Ib as [->|Ib]; [reflexivity|].
      apply str_leb_antisym; [apply A1; exact Ib|apply A2; exact Ia]. }
    subst b. f_equal. apply IH; [assumption|assumption|]. eapply Permutation_cons_inv. exact P.
Qed.

Theorem sort_of_a_set l l' : Permutation l l' -> sort_s l = sort_s l'.
Proof.
  intros P. apply sorted_perm_unique; [apply sort_sorted|apply sort_sorted|].
  eapply perm_trans; [apply Permutation_sym, sort_perm|]. eapply perm_trans; [exact P|apply sort_perm].
Qed.

(* the PYTHONHASHSEED clause for the generated text: the sequence of hoisted lines is a function of the SETS of names and of
   defs, whatever order a set happens to be iterated in *)
Theorem emitted_independent_of_set_order names names' defs defs' :
  Permutation names names' -> Permutation defs defs' -> emitted names defs = emitted names' defs'.
Proof. intros Pn Pd. unfold emitted. rewrite (sort_of_a_set _ _ Pn), (sort_of_a_set _ _ Pd). reflexivity. Qed.

Theorem first_missing_independent_of_set_order have names names' defs defs' :
  Permutation names names' -> Permutation defs defs' -> first_missing have names defs = first_missing have names' defs'.
Proof. intros Pn Pd. unfold first_missing. rewrite (emitted_independent_of_set_order _ _ _ _ Pn Pd). reflexivity. Qed.

