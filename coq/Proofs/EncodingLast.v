(* Proofs/EncodingLast.v -- the greedy leading part of the coding-comment pattern: the last place on
   the first line where the rest of the pattern matches is the one that counts *)
From Coq Require Import Lia.
From MakoV Require Import Lib.Str Gen.Unicode Model.Encoding Proofs.EncodingProofs.
Open Scope N_scope.

(* find_last answers with the match at some start position pre of the first line, and at no later
   start position of that line does the rest of the pattern match *)
Theorem find_last_is_last r : forall name rest, find_last r = Some (name, rest) ->
  exists pre s, r = pre ++ s /\ no_lf pre /\ try_at s = Some (name, rest) /\
    forall mid s', s = mid ++ s' -> mid <> [] -> no_lf mid -> try_at s' = None.
Proof.
  induction r as [|c r' IH]; intros name rest H.
  - cbn [find_last] in H. exists [], []. repeat split; try assumption.
    intros mid s' E Hne _. destruct mid; [congruence|discriminate].
  - cbn [find_last] in H. destruct (c =? LF) eqn:Ec.
    + exists [], (c :: r'). repeat split; [exact H|].
      intros mid s' E Hne Hnl. destruct mid as [|m0 mid']; [congruence|]. cbn [app] in E. injection E as <- _.
      unfold no_lf in Hnl. cbn [forallb] in Hnl. rewrite Ec in Hnl. discriminate.
    + destruct (find_last r') as [[n1 r1]|] eqn:El.
      * injection H as <- <-. destruct (IH n1 r1 eq_refl) as (pre & s & -> & Hp & Ht & Hlast).
        exists (c :: pre), s. repeat split; [unfold no_lf; cbn [forallb]; rewrite Ec; exact Hp|exact Ht|exact Hlast].
      * exists [], (c :: r'). repeat split; [exact H|].
        (* no later position matches: otherwise find_last r' would have answered *)
        intros mid s' E Hne Hnl. destruct mid as [|m0 mid']; [congruence|]. cbn [app] in E. injection E as <- E'.
        assert (Hnone : forall q, find_last q = None -> forall a b, q = a ++ b -> no_lf a -> try_at b = None).
        { clear. induction q as [|x q' IHq]; intros Hq a b E Ha.
          - destruct a; [|discriminate]. cbn in E. subst b. exact Hq.
          - cbn [find_last] in Hq. destruct a as [|a0 a'].
            + cbn in E. subst b. destruct (x =? LF); [exact Hq|]. destruct (find_last q'); [discriminate|exact Hq].
            + cbn [app] in E. injection E as <- E. unfold no_lf in Ha. cbn [forallb] in Ha. apply andb_true_iff in Ha as [Ha0 Ha'].
              apply negb_true_iff in Ha0. rewrite Ha0 in Hq. destruct (find_last q') eqn:Eq'; [discriminate|].
              apply (IHq eq_refl a' b E Ha'). }
        unfold no_lf in Hnl. cbn [forallb] in Hnl. apply andb_true_iff in Hnl as [_ Hnl'].
        apply (Hnone r' El mid' s' E' Hnl').
Qed.
