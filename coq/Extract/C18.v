From Coq Require Import Extraction ExtrOcamlBasic.
From MakoV Require Import Lib.Str Gen.Unicode Model.Encoding.
Extraction Language OCaml.
Extraction "../ocaml/c18/model.ml" N.of_nat coding_match decide render_out.
