(* Extraction of the C10 model: ExtrOcamlBasic only, numbers stay inductive. *)
From Coq Require Import Extraction ExtrOcamlBasic.
From MakoV Require Import Lib.Str Lib.Utf8 Model.Filters.
Extraction Language OCaml.

Extraction "../ocaml/c10/model.ml" N.of_nat
  xml_escape html_escape url_escape html_entities_escape html_entities_unescape
  entity_escape_full trim decode_filter encode_replace
  ref_unescape spec_markup spec_url entity_exact spec_trim spec_replacement has_entity
  utf8_char utf8_decode.
