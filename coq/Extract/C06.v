From Coq Require Import Extraction ExtrOcamlBasic.
From MakoV Require Import Lib.Str Model.Inherit.
Extraction Language OCaml.
Extraction "../ocaml/c06/model.ml" N.of_nat render.
