From Coq Require Import Extraction ExtrOcamlBasic.
From MakoV Require Import Lib.Str Gen.Unicode Model.Cache.
Extraction Language OCaml.
Extraction "../ocaml/c17/model.ml" N.of_nat crun cinit module_id final_args get_cache_kw cget.
