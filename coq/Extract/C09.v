From Coq Require Import Extraction ExtrOcamlBasic.
From MakoV Require Import Lib.Str Model.Paths.
Extraction Language OCaml.
Extraction "../ocaml/c09/model.ml" N.of_nat
  normpath join dirname clean_lookup clean_template u_norm template_check get_template
  lookup_dirs adjust_uri module_path within spec_lookup.
