From Coq Require Import Extraction ExtrOcamlBasic.
From MakoV Require Import Lib.Str Gen.AstUtil Model.Margin Model.PyScope Model.PyExpr.
Extraction Language OCaml.
Extraction "../ocaml/c19/model.ml" N.of_nat adjust_whitespace flush_block find_identifiers needs_from_namespace print_expr.
