From Coq Require Import Extraction ExtrOcamlBasic.
From MakoV Require Import Lib.Str Model.Paths Model.Namespace.
Extraction Language OCaml.
Extraction "../ocaml/c07/model.ml" N.of_nat ns_get import_ns resolve_imported kwargs_for_include reached.
