From Coq Require Import Extraction ExtrOcamlBasic.
From MakoV Require Import Lib.Str Gen.Util Model.Lookup.
Extraction Language OCaml.
Extraction "../ocaml/c14/model.ml" N.of_nat run init.
