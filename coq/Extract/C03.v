From Coq Require Import Extraction ExtrOcamlBasic.
From MakoV Require Import Lib.Str Model.Loop Model.PyPrinter.
Extraction Language OCaml.
Extraction "../ocaml/c03/model.ml" N.of_nat run_prog print_lines needs_pass.
