From Coq Require Import Extraction ExtrOcamlBasic.
From MakoV Require Import Lib.Str Model.LineMap.
Extraction Language OCaml.
Extraction "../ocaml/c12/model.ml" N.of_nat prun full_line_map translate select.
