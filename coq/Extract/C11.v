From Coq Require Import Extraction ExtrOcamlBasic.
From MakoV Require Import Lib.Str Gen.Unicode Gen.LexerOrder Gen.Parsetree Model.Lexer Model.PyLine.
Extraction Language OCaml.
Extraction "../ocaml/c11/model.ml" N.of_nat lex tiles emit_ok emit parse_until python_code_line fragment_line line_of_prefix col_of_prefix.
