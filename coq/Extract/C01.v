From Coq Require Import Extraction ExtrOcamlBasic.
From MakoV Require Import Lib.Str Gen.Unicode Gen.LexerOrder Gen.Parsetree Model.Lexer.
Extraction Language OCaml.
Extraction "../ocaml/c01/model.ml" N.of_nat lex tiles emit_ok emit parse_until.
