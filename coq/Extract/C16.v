From Coq Require Import Extraction ExtrOcamlBasic.
From MakoV Require Import Lib.Str Lib.Assoc Model.LookupConc.
Extraction Language OCaml.
Extraction "../ocaml/c16/model.ml" N.of_nat crun_conc conc_init enabled_th is_done.
