From Coq Require Import Extraction ExtrOcamlBasic.
From MakoV Require Import Lib.Str Gen.Filters Gen.Template Gen.Unicode Gen.LexerOrder Gen.Parsetree Model.FilterPipe Model.Lexer.
Extraction Language OCaml.
Extraction "../ocaml/c02/model.ml" N.of_nat resolved_pipeline filtering_applies lex default_default_filters.
