From Coq Require Import Extraction ExtrOcamlBasic.
From MakoV Require Import Lib.Str Model.Core.
Extraction Language OCaml.
Extraction "../ocaml/c05/model.ml" N.of_nat render.
