From Coq Require Import Extraction ExtrOcamlBasic.
From MakoV Require Import Lib.Str Gen.Reserved Model.Scope Model.Idents.
Extraction Language OCaml.
Extraction "../ocaml/c04/model.ml" N.of_nat resolve run_body new_context conflict branch branch_template to_write.
