From Coq Require Import Extraction ExtrOcamlBasic.
From MakoV Require Import Lib.Str Gen.Reserved Model.Scope.
Extraction Language OCaml.
Extraction "../ocaml/c04/model.ml" N.of_nat resolve run_body new_context conflict.
