From Coq Require Import Extraction ExtrOcamlBasic.
From MakoV Require Import Lib.Str Model.ModFile.
Extraction Language OCaml.
Extraction "../ocaml/c15/model.ml" N.of_nat run_sched start target_ok decide writes_performed.
