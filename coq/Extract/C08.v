From Coq Require Import Extraction ExtrOcamlBasic.
From MakoV Require Import Lib.Str Gen.Unicode Model.Paths8.
Extraction Language OCaml.
Extraction "../ocaml/c08/model.ml" N.of_nat module_id register_all answers emitted.
