From Coq Require Import Extraction ExtrOcamlBasic.
From MakoV Require Import Lib.Str Gen.Unicode Model.Extract.
Extraction Language OCaml.
Extraction "../ocaml/c20/model.ml" N.of_nat extract visited all_codes.
