(* Lib/Utf8.v -- UTF-8 encoder / strict decoder on code points (definitions only). *)
From MakoV Require Import Lib.Str.
Open Scope N_scope.

Definition is_surrogate (c : N) : bool := (55296 <=? c) && (c <=? 57343).
Definition is_scalar (c : N) : bool := (c <? 1114112) && negb (is_surrogate c).

(* None for surrogates and values beyond U+10FFFF (CPython raises UnicodeEncodeError) *)
Definition utf8_char (c : N) : option (list N) :=
  if c <? 128 then Some [c]
  else if c <? 2048 then Some [192 + c / 64; 128 + c mod 64]
  else if c <? 65536 then
    if is_surrogate c then None
    else Some [224 + c / 4096; 128 + (c / 64) mod 64; 128 + c mod 64]
  else if c <? 1114112 then
    Some [240 + c / 262144; 128 + (c / 4096) mod 64; 128 + (c / 64) mod 64; 128 + c mod 64]
  else None.

Fixpoint utf8_encode (s : str) : option (list N) :=
  match s with
  | [] => Some []
  | c :: r =>
      match utf8_char c, utf8_encode r with
      | Some b, Some br => Some (b ++ br)
      | _, _ => None
      end
  end.

Definition is_cont (b : N) : bool := (128 <=? b) && (b <? 192).

(* strict decoder: rejects overlong forms, surrogates, > U+10FFFF, stray bytes.
   [skip] = continuation bytes of the current character still to be dropped. *)
Fixpoint utf8_decode_go (bs : list N) (skip : nat) : option str :=
  match bs with
  | [] => match skip with O => Some [] | _ => None end
  | b :: r =>
      match skip with
      | S k => utf8_decode_go r k
      | O =>
          if b <? 128 then option_map (cons b) (utf8_decode_go r 0)
          else if b <? 192 then None
          else if b <? 224 then
            match r with
            | b1 :: _ =>
                let c := (b - 192) * 64 + (b1 - 128) in
                if is_cont b1 && (128 <=? c) then option_map (cons c) (utf8_decode_go r 1) else None
            | _ => None
            end
          else if b <? 240 then
            match r with
            | b1 :: b2 :: _ =>
                let c := (b - 224) * 4096 + (b1 - 128) * 64 + (b2 - 128) in
                if is_cont b1 && is_cont b2 && (2048 <=? c) && negb (is_surrogate c)
                then option_map (cons c) (utf8_decode_go r 2) else None
            | _ => None
            end
          else if b <? 248 then
            match r with
            | b1 :: b2 :: b3 :: _ =>
                let c := (b - 240) * 262144 + (b1 - 128) * 4096 + (b2 - 128) * 64 + (b3 - 128) in
                if is_cont b1 && is_cont b2 && is_cont b3 && (65536 <=? c) && (c <? 1114112)
                then option_map (cons c) (utf8_decode_go r 3) else None
            | _ => None
            end
          else None
      end
  end.

Definition utf8_decode (bs : list N) : option str := utf8_decode_go bs 0.
