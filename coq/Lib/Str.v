(* Lib/Str.v -- text as lists of Unicode code points, shared by every model.
   Definitions and small structural lemmas only; stdlib only. *)
From Coq Require Export List NArith Bool Ascii Lia.
From Coq Require Strings.String.
Export String.StringSyntax.
Export ListNotations.
Open Scope N_scope.

Notation char := N (only parsing).
Notation str := (list N) (only parsing).

(* ASCII literals:  s2l "<%"  =  [60; 37] *)
Fixpoint s2l (s : String.string) : str :=
  match s with
  | String.EmptyString => []
  | String.String a r => N_of_ascii a :: s2l r
  end.
Arguments s2l _%string_scope.

Fixpoint str_eqb (a b : str) : bool :=
  match a, b with
  | [], [] => true
  | x :: a', y :: b' => (x =? y) && str_eqb a' b'
  | _, _ => false
  end.

Lemma str_eqb_eq a b : str_eqb a b = true <-> a = b.
Proof.
  revert b; induction a as [|x a IH]; intros [|y b]; simpl; try (split; congruence).
  rewrite andb_true_iff, N.eqb_eq, IH. split.
  - intros [-> ->]; reflexivity.
  - intros H; inversion H; auto.
Qed.

Lemma str_eqb_refl a : str_eqb a a = true.
Proof. apply str_eqb_eq; reflexivity. Qed.

(* [strip_prefix p s] = Some r  iff  s = p ++ r *)
Fixpoint strip_prefix (p s : str) : option str :=
  match p with
  | [] => Some s
  | x :: p' =>
      match s with
      | y :: s' => if x =? y then strip_prefix p' s' else None
      | [] => None
      end
  end.

Lemma strip_prefix_spec p s r : strip_prefix p s = Some r <-> s = p ++ r.
Proof.
  revert s; induction p as [|x p IH]; intros s; simpl.
  - split; congruence.
  - destruct s as [|y s]; [split; congruence|].
    destruct (N.eqb_spec x y) as [->|Hne].
    + rewrite IH. split; [intros ->; reflexivity | intros H; inversion H; reflexivity].
    + split; [congruence | intros H; inversion H; congruence].
Qed.

Lemma strip_prefix_app p r : strip_prefix p (p ++ r) = Some r.
Proof. apply strip_prefix_spec; reflexivity. Qed.

Definition starts_with (p s : str) : bool :=
  match strip_prefix p s with Some _ => true | None => false end.

Definition memN (c : N) (l : list N) : bool := existsb (N.eqb c) l.

Lemma memN_In c l : memN c l = true <-> In c l.
Proof.
  unfold memN. rewrite existsb_exists. split.
  - intros [x [Hin Heq]]. apply N.eqb_eq in Heq. subst; assumption.
  - intros Hin. exists c. split; [assumption|apply N.eqb_refl].
Qed.

Lemma memN_false c l : memN c l = false <-> ~ In c l.
Proof.
  rewrite <- memN_In. destruct (memN c l); split; congruence.
Qed.

(* association lists keyed by N *)
Fixpoint assocN {A} (k : N) (l : list (N * A)) : option A :=
  match l with
  | [] => None
  | (k', v) :: r => if k =? k' then Some v else assocN k r
  end.

(* association lists keyed by str *)
Fixpoint assocS {A} (k : str) (l : list (str * A)) : option A :=
  match l with
  | [] => None
  | (k', v) :: r => if str_eqb k k' then Some v else assocS k r
  end.

(* sorted, disjoint inclusive ranges as a balanced search tree (emitted by the
   translator for the interpreter's character classes) *)
Inductive rtree :=
| RLeaf
| RNode (l : rtree) (lo hi : N) (r : rtree).

Fixpoint rmem (c : N) (t : rtree) : bool :=
  match t with
  | RLeaf => false
  | RNode l lo hi r =>
      if c <? lo then rmem c l else if hi <? c then rmem c r else true
  end.

(* [rfind c t] = the [lo] of the range containing c *)
Fixpoint rfind (c : N) (t : rtree) : option N :=
  match t with
  | RLeaf => None
  | RNode l lo hi r =>
      if c <? lo then rfind c l else if hi <? c then rfind c r else Some lo
  end.

Definition is_ascii_digit (c : N) : bool := (48 <=? c) && (c <=? 57).
Definition is_ascii_upper (c : N) : bool := (65 <=? c) && (c <=? 90).
Definition is_ascii_lower (c : N) : bool := (97 <=? c) && (c <=? 122).
Definition is_ascii_alnum (c : N) : bool :=
  is_ascii_digit c || is_ascii_upper c || is_ascii_lower c.

Definition hexdigit_upper (d : N) : N := if d <? 10 then 48 + d else 55 + d.

(* count occurrences *)
Fixpoint countN (c : N) (s : str) : N :=
  match s with
  | [] => 0
  | x :: r => (if x =? c then 1 else 0) + countN c r
  end.

Definition LF : N := 10.
Definition CR : N := 13.
