(* Lib/Assoc.v -- association lists keyed by N, with update-in-place *)
From MakoV Require Import Lib.Str.
Open Scope N_scope.

Fixpoint nget {A} (i : N) (l : list (N * A)) : option A :=
  match l with [] => None | (j, x) :: r => if i =? j then Some x else nget i r end.
Fixpoint nset {A} (i : N) (x : A) (l : list (N * A)) : list (N * A) :=
  match l with
  | [] => [(i, x)]
  | (j, y) :: r => if i =? j then (i, x) :: r else (j, y) :: nset i x r
  end.

Lemma nget_nset_same {A} i (x : A) l : nget i (nset i x l) = Some x.
Proof.
  induction l as [|[j y] r IH]; cbn [nset nget]; [rewrite N.eqb_refl; reflexivity|].
  destruct (i =? j) eqn:E; cbn [nget]; [rewrite N.eqb_refl; reflexivity|rewrite E; exact IH].
Qed.

Lemma nget_nset_other {A} i j (x : A) l : i <> j -> nget i (nset j x l) = nget i l.
Proof.
  intros H. induction l as [|[k y] r IH]; cbn [nset nget].
  - apply N.eqb_neq in H. rewrite H. reflexivity.
  - destruct (j =? k) eqn:E; cbn [nget].
    + apply N.eqb_eq in E. subst k. apply N.eqb_neq in H. rewrite H. reflexivity.
    + destruct (i =? k); [reflexivity|exact IH].
Qed.

Lemma nget_In {A} i (x : A) l : nget i l = Some x -> In (i, x) l.
Proof.
  induction l as [|[j y] r IH]; cbn [nget]; [discriminate|].
  destruct (N.eqb_spec i j) as [->|Hne]; [intros [= ->]; left; reflexivity|intros H; right; auto].
Qed.
