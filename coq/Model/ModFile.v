(* Model/ModFile.v -- module files: the writer of _compile_module_file (mkstemp in the target
   directory, write, close, move = atomic rename), any number of concurrent writers and crash
   points, and the staleness decision of Template._compile_from_file.  Definitions only. *)
From MakoV Require Import Lib.Str.
Open Scope N_scope.

(* ---- file contents: which generation, how much of it ----------------------------- *)
Record content := { gen : N; written : N; total : N }.
Definition complete (c : content) : bool := written c =? total c.

(* ---- one writer -------------------------------------------------------------------- *)
Inductive wpc := WInit | WStart | WCreated | WWritten | WClosed | WDone | WCrashed.

Record writer := { w_gen : N; w_total : N; w_pc : wpc }.

(* the directory: the module path and the temp files (one per writer, by fresh_tmp_name) *)
Record dirst := {
  target : option content;
  temps : list (N * content);       (* writer id -> its temp file *)
  writers : list (N * writer)
}.

Inductive action :=
| Step                      (* perform the next file-system call completely *)
| CrashBefore               (* the process dies before its next call *)
| CrashMidWrite (k : N).    (* dies inside os.write after k bytes (k < total); only at WCreated *)

Fixpoint wget (i : N) (l : list (N * writer)) : option writer :=
  match l with [] => None | (j, w) :: r => if i =? j then Some w else wget i r end.
Fixpoint wset (i : N) (w : writer) (l : list (N * writer)) : list (N * writer) :=
  match l with
  | [] => [(i, w)]
  | (j, w') :: r => if i =? j then (i, w) :: r else (j, w') :: wset i w r
  end.
Fixpoint tget (i : N) (l : list (N * content)) : option content :=
  match l with [] => None | (j, c) :: r => if i =? j then Some c else tget i r end.
Fixpoint tset (i : N) (c : content) (l : list (N * content)) : list (N * content) :=
  match l with
  | [] => [(i, c)]
  | (j, c') :: r => if i =? j then (i, c) :: r else (j, c') :: tset i c r
  end.
Fixpoint tdel (i : N) (l : list (N * content)) : list (N * content) :=
  match l with
  | [] => []
  | (j, c) :: r => if i =? j then tdel i r else (j, c) :: tdel i r
  end.

Definition set_pc (w : writer) (p : wpc) : writer := {| w_gen := w_gen w; w_total := w_total w; w_pc := p |}.

Definition wstep (d : dirst) (i : N) (a : action) : dirst :=
  match wget i (writers d) with
  | None => d
  | Some w =>
      match a, w_pc w with
      | _, WDone => d
      | _, WCrashed => d
      | CrashBefore, _ =>
          {| target := target d; temps := temps d; writers := wset i (set_pc w WCrashed) (writers d) |}
      | CrashMidWrite k, WCreated =>
          let k' := if k <? w_total w then k else w_total w in
          {| target := target d;
             temps := tset i {| gen := w_gen w; written := k'; total := w_total w |} (temps d);
             writers := wset i (set_pc w WCrashed) (writers d) |}
      | CrashMidWrite _, _ =>
          {| target := target d; temps := temps d; writers := wset i (set_pc w WCrashed) (writers d) |}
      | Step, WInit =>                                    (* staleness probe of the module path *)
          let fresh := match target d with Some c => gen c =? w_gen w | None => false end in
          {| target := target d; temps := temps d;
             writers := wset i (set_pc w (if fresh then WDone else WStart)) (writers d) |}
      | Step, WStart =>                                   (* mkstemp: a fresh, empty file *)
          {| target := target d;
             temps := tset i {| gen := w_gen w; written := 0; total := w_total w |} (temps d);
             writers := wset i (set_pc w WCreated) (writers d) |}
      | Step, WCreated =>                                 (* os.write: everything (write_all_or_raise) *)
          {| target := target d;
             temps := tset i {| gen := w_gen w; written := w_total w; total := w_total w |} (temps d);
             writers := wset i (set_pc w WWritten) (writers d) |}
      | Step, WWritten =>                                 (* os.close *)
          {| target := target d; temps := temps d; writers := wset i (set_pc w WClosed) (writers d) |}
      | Step, WClosed =>                                  (* shutil.move = rename: atomic replace *)
          {| target := tget i (temps d); temps := tdel i (temps d);
             writers := wset i (set_pc w WDone) (writers d) |}
      end
  end.

Definition run_sched (d : dirst) (s : list (N * action)) : dirst :=
  fold_left (fun d ia => wstep d (fst ia) (snd ia)) s d.

Definition start (t0 : option content) (ws : list (N * writer)) : dirst :=
  {| target := t0; temps := []; writers := ws |}.

Definition fresh_writers (ws : list (N * writer)) : bool :=
  forallb (fun iw => match w_pc (snd iw) with WInit => true | WStart => true | _ => false end) ws.

(* what a reader (a later or concurrent Template) finds at the module path *)
Definition target_ok (t0 : option content) (ws : list (N * writer)) (t : option content) : bool :=
  match t with
  | None => match t0 with None => true | Some _ => false end
  | Some c =>
      complete c &&
      (match t0 with Some c0 => (gen c =? gen c0) && (total c =? total c0) | None => false end
       || existsb (fun iw => (gen c =? w_gen (snd iw)) && (total c =? w_total (snd iw))) ws)
  end.

(* ---- the staleness decision of _compile_from_file ------------------------------------ *)
Inductive decision := Reuse | Rewrite.

(* module_state: None = no file; Some (mtime, magic, same): same = the module says it was generated from this very
   source file (its _template_filename; the path of a module file derives from the URI alone, so a lookup over several
   directories can meet the module of another directory's file -- fix d354100) *)
Definition decide (cur_magic : N) (src_mtime : N) (m : option (N * N * bool)) : decision :=
  match m with
  | None => Rewrite
  | Some (mt, magic, same) => if mt <? src_mtime then Rewrite else if (magic =? cur_magic) && same then Reuse else Rewrite
  end.

(* number of (re)writes _compile_from_file performs: the mtime test first, then, after loading,
   the magic-number and source-file tests against the module now on disk *)
Definition writes_performed (cur_magic src_mtime : N) (m : option (N * N * bool)) : N :=
  let first := match m with
               | None => true
               | Some (mt, _, _) => mt <? src_mtime
               end in
  let ok_after_first := if first then true
                        else match m with Some (_, mg, same) => (mg =? cur_magic) && same | None => true end in
  (if first then 1 else 0) + (if ok_after_first then 0 else 1).

(* ---- util.verify_directory, any number of concurrent callers ---------------------------- *)
(*   while not os.path.exists(dir_):
         try: tries += 1; os.makedirs(dir_, 0o755)
         except: if tries > 5: raise                                                        *)
From MakoV Require Import Lib.Assoc.
Inductive vpc := VCheck | VMake | VDone | VRaised.
Record vthread := { v_pc : vpc; v_tries : N }.
Record vstate := { dir_exists : bool; vthreads : list (N * vthread) }.

Definition vstep (s : vstate) (i : N) : vstate :=
  match nget i (vthreads s) with
  | None => s
  | Some t =>
      match v_pc t with
      | VCheck =>
          {| dir_exists := dir_exists s;
             vthreads := nset i {| v_pc := if dir_exists s then VDone else VMake; v_tries := v_tries t |} (vthreads s) |}
      | VMake =>
          let tr := v_tries t + 1 in
          if dir_exists s then            (* makedirs raises FileExistsError *)
            {| dir_exists := true;
               vthreads := nset i {| v_pc := if 5 <? tr then VRaised else VCheck; v_tries := tr |} (vthreads s) |}
          else
            {| dir_exists := true; vthreads := nset i {| v_pc := VCheck; v_tries := tr |} (vthreads s) |}
      | _ => s
      end
  end.

Definition vrun (s : vstate) (sched : list N) : vstate := fold_left vstep sched s.
Definition vfresh (ts : list (N * vthread)) : bool :=
  forallb (fun it => match v_pc (snd it) with VCheck => v_tries (snd it) =? 0 | _ => false end) ts.
