(* Model/Idents.v -- codegen._Identifiers (mako/codegen.py:1040-1282): for one generated function, which
   names are declared by enclosing scopes, which are read before anything declares them, which are
   assigned or are arguments; how a nested scope is branched from its parent; and the set of names
   write_variable_declares hoists into context lookups at the top of the function.  The names each
   node reads and binds (undeclared_identifiers / declared_identifiers, C19's subject) are inputs.
   Definitions only. *)
From MakoV Require Import Lib.Str.
Open Scope N_scope.

Definition n_context : N := 0.      (* the name context is never looked up *)
Definition n_loop : N := 18.        (* the name loop (the harness numbers names from a fixed table) *)

Inductive tnode :=
| TCheck (u d : list N)                           (* expression, control line, include, text tag: reads u, binds d *)
| TCode (u d : list N)                            (* a code block that is not module-level *)
| TPage (args u d : list N)
| TDef (root : bool) (name : N) (args sig_u : list N) (body : list tnode)   (* root: written at the top level of the template *)
| TBlock (named : bool) (name : N) (args sig_u : list N) (body : list tnode)     (* an anonymous block has a generated function name *)
| TCall (sig_u args : list N) (body : list tnode)
| TNamespace (body : list tnode)
| TFor (u d : list N) (loop_inside : bool).      (* a for control line; loop_inside: LoopVariable finds "loop" in it or below it (enable_loop on) *)

Record ids := {
  declared : list N; undeclared : list N; locally_declared : list N; locally_assigned : list N;
  argument_declared : list N; topleveldefs : list N; closuredefs : list N
}.

Definition upd_undeclared (s : ids) (l : list N) : ids :=
  {| declared := declared s; undeclared := l; locally_declared := locally_declared s; locally_assigned := locally_assigned s;
     argument_declared := argument_declared s; topleveldefs := topleveldefs s; closuredefs := closuredefs s |}.

(* for ident in names: if ident != "context" and ident not in declared.union(locally_declared): undeclared.add(ident) *)
Definition reads (s : ids) (names : list N) : ids :=
  upd_undeclared s (filter (fun x => negb (x =? n_context) && negb (memN x (declared s) || memN x (locally_declared s))) names ++ undeclared s).

Definition binds_local (s : ids) (d : list N) : ids :=
  {| declared := declared s; undeclared := undeclared s; locally_declared := d ++ locally_declared s; locally_assigned := locally_assigned s;
     argument_declared := argument_declared s; topleveldefs := topleveldefs s; closuredefs := closuredefs s |}.
Definition assigns (s : ids) (d : list N) : ids :=
  {| declared := declared s; undeclared := undeclared s; locally_declared := locally_declared s; locally_assigned := d ++ locally_assigned s;
     argument_declared := argument_declared s; topleveldefs := topleveldefs s; closuredefs := closuredefs s |}.
Definition args_ (s : ids) (a : list N) : ids :=
  {| declared := declared s; undeclared := undeclared s; locally_declared := locally_declared s; locally_assigned := locally_assigned s;
     argument_declared := a ++ argument_declared s; topleveldefs := topleveldefs s; closuredefs := closuredefs s |}.
Definition add_top (s : ids) (n : N) : ids :=
  {| declared := declared s; undeclared := undeclared s; locally_declared := locally_declared s; locally_assigned := locally_assigned s;
     argument_declared := argument_declared s; topleveldefs := n :: topleveldefs s; closuredefs := closuredefs s |}.
Definition add_closure (s : ids) (n : N) : ids :=
  {| declared := declared s; undeclared := undeclared s; locally_declared := locally_declared s; locally_assigned := locally_assigned s;
     argument_declared := argument_declared s; topleveldefs := topleveldefs s; closuredefs := n :: closuredefs s |}.

(* check_declared *)
Definition check_declared (s : ids) (u d : list N) : ids := binds_local (reads s u) d.

(* a node met during the traversal; own = it is the scope's own node (only blocks are traversed in place) *)
Fixpoint visit (fuel : nat) (own : bool) (s : ids) (n : tnode) : ids :=
  match fuel with
  | O => s
  | S f =>
      match n with
      | TCheck u d => check_declared s u d
      | TCode u d => assigns (check_declared s u d) d
      | TPage a u d => check_declared (args_ s a) u d
      | TDef root name _ sig_u _ =>
          (* registered, its signature's names read here; its body is another scope *)
          reads (if root then add_top s name else add_closure s name) sig_u
      | TBlock named name a sig_u body =>
          let s1 := reads s sig_u in
          let s2 := if named then upd_undeclared (add_top s1 name) (name :: undeclared s1)     (* the block's function name is always looked up *)
                    else if own then s1 else add_closure s1 name in
          fold_left (visit f false) body (args_ s2 a)       (* a block's content belongs to the scope the block is met in *)
      | TCall sig_u _ _ => reads s sig_u
      | TNamespace _ => s
      | TFor u d inside =>
          (* (fix c3c2d1f) the scope that holds a loop whose context is used, also only from a nested scope, sets up "loop" itself *)
          check_declared s (if inside then n_loop :: u else u) d
      end
  end.
Definition visit_child (fuel : nat) (s : ids) (n : tnode) : ids := visit fuel false s n.

(* _Identifiers(compiler, node, parent, nested) *)
Definition branch_init (parent : ids) (nested : bool) : ids :=
  {| declared := declared parent ++ closuredefs parent ++ locally_declared parent ++ argument_declared parent
                 ++ (if nested then undeclared parent else []);
     undeclared := []; locally_declared := []; locally_assigned := []; argument_declared := [];
     topleveldefs := topleveldefs parent; closuredefs := [] |}.

Definition idents_fuel : nat := 40.

(* the scope's own node *)
Definition branch (parent : ids) (nested : bool) (n : tnode) : ids :=
  let s0 := branch_init parent nested in
  match n with
  | TDef root name a sig_u body =>
      let s1 := if root then add_top s0 name else s0 in
      fold_left (visit_child idents_fuel) body (args_ (reads s1 sig_u) a)
  | TCall sig_u a body => fold_left (visit_child idents_fuel) body (args_ (reads s0 sig_u) a)
  | TNamespace body =>
      (* write_namespaces branches it from the module's scope: nothing of the template's body is shared, the module-level
         names are (fix e566bb4: they used to be dropped too) *)
      fold_left (visit_child idents_fuel) body
                         {| declared := declared parent; undeclared := []; locally_declared := []; locally_assigned := []; argument_declared := [];
                            topleveldefs := []; closuredefs := [] |}
  | other => visit idents_fuel true s0 other
  end.

(* the template's own scope: every top-level node is a child *)
Definition branch_template (module_ids : ids) (nodes : list tnode) : ids :=
  fold_left (visit_child idents_fuel) nodes (branch_init module_ids false).

(* write_variable_declares: what gets a line at the top of the function *)
Definition minus (a b : list N) : list N := filter (fun x => negb (memN x b)) a.
Definition to_write (s : ids) : list N := minus (minus (undeclared s ++ closuredefs s) (argument_declared s)) (locally_declared s).
