(* Model/Scope.v -- where a name read in a template gets its value: the layers Python and the
   generated module consult in order (locals and closures; module level; names brought in by
   namespace imports; the render-time context; builtins; UNDEFINED or, under strict_undefined, a
   NameError), Context.get / __getitem__ / _locals / _copy / kwargs (mako/runtime.py:30-176), the
   __M_locals dictionary through which defs called by name from a body see its page arguments and
   the current values of its code-block assignments (codegen.py write_toplevel / visitCode), and the
   reserved names check (regenerated table).  Definitions only. *)
From MakoV Require Import Lib.Str Gen.Reserved.
Open Scope N_scope.

(* ---- the order of layers -------------------------------------------------------------------------- *)
Inductive layer := LLocal | LModule | LImport | LContext | LBuiltin.
Inductive found {V} := FValue (l : layer) (v : V) | FUndefined | FNameError.
Arguments found : clear implicits.

Record env (V : Type) := {
  e_locals : list (N * V);      (* arguments, assignments, loop targets, enclosing function scopes -- innermost first *)
  e_module : list (N * V);      (* names of module-level code blocks *)
  e_imports : list (N * V);     (* _import_ns *)
  e_context : list (N * V);     (* Context._data *)
  e_builtins : list (N * V);
  e_strict : bool
}.
Arguments e_locals {V}. Arguments e_module {V}. Arguments e_imports {V}. Arguments e_context {V}.
Arguments e_builtins {V}. Arguments e_strict {V}.

Definition resolve {V} (e : env V) (x : N) : found V :=
  match assocN x (e_locals e) with
  | Some v => FValue LLocal v
  | None =>
      match assocN x (e_module e) with
      | Some v => FValue LModule v
      | None =>
          match assocN x (e_imports e) with
          | Some v => FValue LImport v
          | None =>
              match assocN x (e_context e) with
              | Some v => FValue LContext v
              | None =>
                  match assocN x (e_builtins e) with
                  | Some v => FValue LBuiltin v
                  | None => if e_strict e then FNameError else FUndefined
                  end
              end
          end
      end
  end.

(* ---- Context ----------------------------------------------------------------------------------------- *)
Record context (V : Type) := { c_data : list (N * V); c_kwargs : list (N * V) }.
Arguments c_data {V}. Arguments c_kwargs {V}.

(* Context(buffer, **data): kwargs is a copy of the arguments taken before anything is added *)
Definition new_context {V} (args extras : list (N * V)) : context V := {| c_data := extras ++ args; c_kwargs := args |}.

(* _locals(d): the same object when d is empty, otherwise a copy whose data is updated with d *)
Definition locals_ {V} (c : context V) (d : list (N * V)) : context V :=
  match d with
  | [] => c
  | _ => {| c_data := d ++ c_data c; c_kwargs := c_kwargs c |}
  end.

(* ---- a body with page arguments and code-block assignments, calling a top-level def ------------------- *)
Inductive bstmt {V} :=
| BAssign (x : N) (v : V)          (* a code block assigning x *)
| BCallDef (reads : N).            (* a def called by name, reading a name it does not bind itself *)
Arguments bstmt : clear implicits.

(* __M_locals starts as the page arguments and is updated after every code block; the def stub passes
   context._locals(__M_locals) *)
Fixpoint run_body {V} (c : context V) (mlocals : list (N * V)) (builtins : list (N * V)) (l : list (bstmt V)) : list (found V) :=
  match l with
  | [] => []
  | BAssign x v :: r => run_body c ((x, v) :: mlocals) builtins r
  | BCallDef x :: r =>
      resolve {| e_locals := []; e_module := []; e_imports := []; e_context := c_data (locals_ c mlocals); e_builtins := builtins; e_strict := false |} x
      :: run_body c mlocals builtins r
  end.

(* ---- reserved names ------------------------------------------------------------------------------------ *)
Definition s_loop : str := s2l "loop".
Definition reserved (enable_loop : bool) : list str :=
  if enable_loop then reserved_names_all else filter (fun x => negb (str_eqb x s_loop)) reserved_names_all.

(* Context._set_with_template: NameConflictError when a reserved name is among the data;
   _Identifiers: NameConflictError when a reserved name is declared in the template *)
Definition conflict (enable_loop : bool) (names : list str) : bool :=
  existsb (fun x => existsb (str_eqb x) (reserved enable_loop)) names.
