(* Model/Extract.v -- MessageExtractor.extract_nodes (mako/ext/extract.py:24-129): which nodes
   hand Python code to the message extractor, which children are descended into, the
   translator-comment window, and the line arithmetic of extract.py / babelplugin.process_python.
   The Python message extractor is an oracle: for a piece of code it reports each call with the
   0-based index of the line it is on within that code (py_extract_oracle).  Definitions only. *)
From MakoV Require Import Lib.Str Gen.Unicode.
Open Scope N_scope.

(* a call found by the Python extractor: (line index within the code, message id) *)
Definition calls := list (N * N).

Inductive ckind := CExpr | CCode | CControl | CPage.

Inductive node :=
| NText (content : str)
| NComment (line : N) (text : str)                     (* ## line or <%doc> *)
| NCodeNode (k : ckind) (line : N) (c : calls)         (* expression / <% %> / control line / <%page args> *)
| NControlEnd
| NTagCode (line : N) (c : calls) (kids : nodes)       (* <%def>, <%block>, <%call>, <%ns:def> *)
| NTagOther (kids : nodes)                             (* any other tag: skipped together with its children *)
with nodes :=
| NNil
| NCons (n : node) (r : nodes).

Record est := { tc : list (N * str); intc : bool }.
Definition est0 : est := {| tc := []; intc := false |}.

(* one reported message: (template line, message id, translator comments) *)
Definition out := (N * N * list str)%type.

Definition strip (s : str) : str :=
  let fix l (x : str) := match x with c :: r => if is_strip_space c then l r else x | [] => [] end in
  rev (l (rev (l s))).

Definition is_blank_text (s : str) : bool := match strip s with [] => true | _ => false end.

(* str.splitlines on LF / CRLF (the comment texts of the generated templates contain no other
   line boundary) with the line number of each piece *)
Fixpoint split_lines (s : str) (cur : str) : list str :=
  match s with
  | [] => match cur with [] => [] | _ => [cur] end
  | c :: r =>
      if c =? LF then cur :: split_lines r []
      else if (c =? CR) && (match r with d :: _ => d =? LF | [] => false end) then
        match r with _ :: r2 => cur :: split_lines r2 [] | [] => [cur] end
      else split_lines r (cur ++ [c])
  end.

Fixpoint number_from (n : N) (l : list str) : list (N * str) :=
  match l with [] => [] | x :: r => (n, x) :: number_from (n + 1) r end.
Definition split_comment (line : N) (v : str) : list (N * str) := number_from line (split_lines v []).

Fixpoint last_line (l : list (N * str)) : option N :=
  match l with [] => None | [(n, _)] => Some n | _ :: r => last_line r end.

(* the code of a node is handed to the Python extractor *)
Definition process (line : N) (c : calls) (s : est) : list out * est :=
  (* comments do not apply unless they immediately precede the message *)
  let tc1 := match last_line (tc s) with
             | Some l => if l <? line - 1 then [] else tc s
             | None => tc s
             end in
  let strings := map snd tc1 in
  (* code_lineno = line - 1; the extractor sees "\n" + code, so a call on code line k is on its
     line k + 2, and is reported at code_lineno + (k + 2 - 1) *)
  let msgs := map (fun km => ((line - 1) + ((fst km + 2) - 1), snd km, strings)) c in
  (msgs, {| tc := match c with [] => tc1 | _ => [] end; intc := false |}).

Fixpoint ex_nodes (tags : list str) (l : nodes) (s : est) {struct l} : list out :=
  match l with
  | NNil => []
  | NCons n r =>
      let '(o, s') := ex_node tags n s in o ++ ex_nodes tags r s'
  end
with ex_node (tags : list str) (n : node) (s : est) {struct n} : list out * est :=
  match n with
  | NText content =>
      (* whitespace inside a comment window is ignored; any other text closes the window *)
      if intc s && is_blank_text content then ([], s) else ([], {| tc := tc s; intc := false |})
  | NComment line text =>
      let v := strip text in
      if intc s then ([], {| tc := tc s ++ split_comment line v; intc := true |})
      else
        let hits := filter (fun t => starts_with t v) tags in
        match hits with
        | [] => ([], s)
        | _ => ([], {| tc := split_comment line v; intc := true |})    (* a new block: earlier comments are dropped *)
        end
  | NControlEnd => ([], {| tc := tc s; intc := false |})
  | NCodeNode k line c =>
      let s1 := match k with CCode => {| tc := tc s; intc := false |} | _ => s end in
      process line c s1
  | NTagCode line c kids =>
      let '(o, s1) := process line c s in
      (o ++ ex_nodes tags kids est0, s1)
  | NTagOther kids => ([], {| tc := tc s; intc := false |})
  end.

Definition extract (tags : list str) (l : nodes) : list out := ex_nodes tags l est0.

(* ---- which code is visited ------------------------------------------------------------------ *)
Fixpoint visited (l : nodes) : list (N * calls) :=
  match l with
  | NNil => []
  | NCons n r => visited_node n ++ visited r
  end
with visited_node (n : node) : list (N * calls) :=
  match n with
  | NCodeNode _ line c => [(line, c)]
  | NTagCode line c kids => (line, c) :: visited kids
  | _ => []
  end.

(* every Python-bearing construct of the tree, wherever it stands *)
Fixpoint all_codes (l : nodes) : list (N * calls) :=
  match l with
  | NNil => []
  | NCons n r => all_codes_node n ++ all_codes r
  end
with all_codes_node (n : node) : list (N * calls) :=
  match n with
  | NCodeNode _ line c => [(line, c)]
  | NTagCode line c kids => (line, c) :: all_codes kids
  | NTagOther kids => all_codes kids
  | _ => []
  end.

(* no Python-bearing construct below a tag the traversal skips *)
Fixpoint no_hidden_code (l : nodes) : bool :=
  match l with
  | NNil => true
  | NCons n r => no_hidden_code_node n && no_hidden_code r
  end
with no_hidden_code_node (n : node) : bool :=
  match n with
  | NTagCode _ _ kids => no_hidden_code kids
  | NTagOther kids => match all_codes kids with [] => true | _ => false end
  | _ => true
  end.

Definition reported (lc : N * calls) : list (N * N) := map (fun km => (fst lc + fst km, snd km)) (snd lc).
