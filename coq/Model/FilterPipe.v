(* Model/FilterPipe.v -- create_filter_callable and the decision in visitExpression
   (mako/codegen.py:775-822): which filters are applied to an expression, in which order, and what
   each name denotes (over the regenerated DEFAULT_ESCAPES table).  Definitions only. *)
From MakoV Require Import Lib.Str Gen.Filters Gen.Template.
Open Scope N_scope.

Definition nflag : str := s2l "n".
Definition has_n (l : list str) : bool := existsb (str_eqb nflag) l.
Definition drop_n (l : list str) : list str := filter (fun e => negb (str_eqb e nflag)) l.

(* the argument list after defaults and page filters are merged in (before "n" entries are skipped) *)
Definition merged (D : list str) (P : option (list str)) (L : list str) (is_expr : bool) : list str :=
  if has_n L then L
  else if is_expr then
    let a1 := match P with Some p => p ++ L | None => L end in
    if negb (match D with [] => true | _ => false end) && negb (has_n a1) then D ++ a1 else a1
  else L.

(* the filters applied, innermost first *)
Definition pipeline (D : list str) (P : option (list str)) (L : list str) (is_expr : bool) : list str :=
  drop_n (merged D P L is_expr).

(* visitExpression: is any filtering code emitted at all? *)
Definition filtering_applies (D : list str) (P : option (list str)) (L : list str) : bool :=
  negb (match L with [] => true | _ => false end)
  || match P with Some (_ :: _) => true | _ => false end
  || negb (match D with [] => true | _ => false end).

(* ---- what a name denotes -------------------------------------------------------------------- *)
(* decode.<enc> -> filters.decode.<enc>; a flag of the table -> its entry; anything else -> itself *)
Definition is_decode (name : str) : bool :=
  match strip_prefix (s2l "decode.") name with Some (_ :: _) => true | _ => false end.

Definition locate_encode (name : str) : str :=
  if is_decode name then s2l "filters." ++ name
  else match assocS name default_escapes with Some v => v | None => name end.

(* name(args): the identifier is everything before the first "(" (not at index 0) that is
   followed somewhere by ")"; the arguments run from that "(" through the last ")" *)
Fixpoint last_index (c : N) (s : str) (i : nat) (acc : option nat) : option nat :=
  match s with
  | [] => acc
  | x :: r => last_index c r (S i) (if x =? c then Some i else acc)
  end.
Fixpoint first_paren (s : str) (i : nat) : option nat :=      (* index of the first "(" at index >= 1 *)
  match s with
  | [] => None
  | x :: r => if (x =? 40) && negb (Nat.eqb i 0) then Some i else first_paren r (S i)
  end.
Definition split_call (e : str) : option (str * str) :=
  match first_paren e 0 with
  | None => None
  | Some i =>
      match last_index 41 (skipn i e) 0 None with
      | Some j => Some (firstn i e, firstn (S j) (skipn i e))
      | None => None
      end
  end.

Definition resolve (e : str) : str :=
  match split_call e with
  | Some (ident, fargs) => locate_encode ident ++ fargs
  | None => locate_encode e
  end.

Definition resolved_pipeline D P L is_expr : list str := map resolve (pipeline D P L is_expr).

(* semantics: filters are unary functions looked up by (resolved) name *)
Definition apply_all {V} (env : str -> V -> V) (names : list str) (v : V) : V :=
  fold_left (fun acc f => env f acc) names v.
