(* Model/Encoding.v -- how a template's text is decoded and its output encoded:
   Lexer.decode_raw_stream (mako/lexer.py:185-227) with the magic coding comment
   regex  #.*coding[:=][ \t]*([-\w.]+).*\r?\n  matched at offset 0, and the choice of output buffer in
   runtime._render / util.FastEncodingBuffer.  The codecs are oracles passed as functions.
   Definitions only. *)
From MakoV Require Import Lib.Str Gen.Unicode.
Open Scope N_scope.

Definition cHASHe : N := 35.  Definition cCOLONe : N := 58.  Definition cEQe : N := 61.
Definition is_namechar_e (c : N) : bool := is_word c || (c =? 45) || (c =? 46).
Definition is_blank_e (c : N) : bool := (c =? 32) || (c =? 9).      (* a blank or a tab: the declaration stays on its line (fix 099dbc7) *)

Fixpoint span_e (p : N -> bool) (s : str) : str * str :=
  match s with
  | c :: r => if p c then let (a, b) := span_e p r in (c :: a, b) else ([], s)
  | [] => ([], [])
  end.

(* the rest of the pattern at one start position:  coding[:=][ \t]*([-\w.]+).*\r?\n  ; the name and what
   follows the match.  The runs are greedy; backtracking cannot change the group because the
   classes of adjacent runs are disjoint and a shorter name is followed by the same line end. *)
Definition try_at (s : str) : option (str * str) :=
  match strip_prefix (s2l "coding") s with
  | Some (e :: r1) =>
      if (e =? cCOLONe) || (e =? cEQe) then
        let (_, r2) := span_e is_blank_e r1 in
        let (name, r3) := span_e is_namechar_e r2 in
        match name with
        | [] => None
        | _ => let (_, r4) := span_e (fun x => negb (x =? LF)) r3 in
               match r4 with
               | _ :: rest => Some (name, rest)
               | [] => None
               end
        end
      else None
  | _ => None
  end.

(* the leading  .*  is greedy: the last start position on the first line that works *)
Fixpoint find_last (r : str) : option (str * str) :=
  let later := match r with
               | c :: r' => if c =? LF then None else find_last r'
               | [] => None
               end in
  match later with
  | Some x => Some x
  | None => try_at r
  end.

Definition coding_match (s : str) : option (str * str) :=
  match s with
  | c :: r => if c =? cHASHe then find_last r else None
  | [] => None
  end.

(* ---- decode_raw_stream --------------------------------------------------------------------- *)
Inductive input := IStr (text : str) | IBytes (b : list N).

Inductive outcome :=
| OStr (enc : str) (text : str)             (* text given as str: returned unchanged *)
| OBytes (enc : str) (payload : list N)     (* bytes (after the BOM) to be decoded with enc *)
| OBomConflict (name : str).                (* CompileException: BOM with conflicting comment *)

Definition BOM : list N := [239; 187; 191].
Definition utf8 : str := s2l "utf-8".

Definition or_default (known : option str) : str :=
  match known with
  | Some k => match k with [] => utf8 | _ => k end      (* an empty known_encoding is falsy *)
  | None => utf8
  end.

(* dec_ignore = bytes.decode("utf-8", "ignore");  names_utf8 n = (codecs.lookup(n).name == "utf-8"), false for unknown names:
   the codec registry's answer to "is this another spelling of utf-8" (UTF-8, utf8, utf_8, ...; since fix 3c3c073) *)
Definition decide (dec_ignore : list N -> str) (names_utf8 : str -> bool) (text : input) (known : option str) : outcome :=
  match text with
  | IStr t =>
      match coding_match t with
      | Some (name, _) => OStr name t
      | None => OStr (or_default known) t
      end
  | IBytes b =>
      match strip_prefix BOM b with
      | Some payload =>
          match coding_match (dec_ignore payload) with
          | Some (name, _) => if names_utf8 name then OBytes utf8 payload else OBomConflict name
          | None => OBytes utf8 payload
          end
      | None =>
          match coding_match (dec_ignore b) with
          | Some (name, _) => OBytes name b
          | None => OBytes (or_default known) b
          end
      end
  end.

Inductive result :=
| RText (enc : str) (text : str)
| RCompileError.

(* dec enc bytes = Some text, or None for UnicodeDecodeError *)
Definition finish (dec : str -> list N -> option str) (o : outcome) : result :=
  match o with
  | OStr e t => RText e t
  | OBytes e p => match dec e p with Some t => RText e t | None => RCompileError end
  | OBomConflict _ => RCompileError
  end.

Definition decode_raw_stream dec_ignore names_utf8 dec text known : result := finish dec (decide dec_ignore names_utf8 text known).

(* ---- output ------------------------------------------------------------------------------------ *)
(* FastEncodingBuffer.getvalue: the written pieces joined, encoded when the buffer has an encoding;
   _render gives the buffer the template's output_encoding unless as_unicode *)
Inductive rendered := RStr (s : str) | RBytes (b : list N) | REncodeError.

Definition render_out (enc : str -> str -> str -> option (list N)) (as_unicode : bool)
  (output_encoding : option str) (errors : str) (pieces : list str) : rendered :=
  let text := concat pieces in
  if as_unicode then RStr text
  else match output_encoding with
       | None => RStr text
       | Some e => match e with
                   | [] => RStr text                       (* an empty output_encoding is falsy *)
                   | _ => match enc e errors text with Some b => RBytes b | None => REncodeError end
                   end
       end.
