(* Model/PyExpr.v -- _ast_util.SourceGenerator on expressions (mako/_ast_util.py:478-692), as used by
   pyparser.ExpressionGenerator to re-emit argument defaults and filter arguments, over the
   regenerated operator tables (Gen/AstUtil.v).  A missing table entry or visit_* method is a
   failure of the printer, as in the code.  Definitions only. *)
From MakoV Require Import Lib.Str Gen.AstUtil.
Open Scope N_scope.

Record lparams := {
  lp_args : list str;               (* positional parameter names *)
  lp_defaults : list (option unit); (* unused placeholder: defaults are expressions, see PLambda *)
  lp_vararg : option str;
  lp_kwonly : list str;
  lp_kwarg : option str
}.

Inductive pexpr :=
| PName (s : str)
| PConst (r : str) (kind : N)                                  (* ascii(value) -- repr with the characters outside ASCII escaped --, atomic; kind 1: an int, bool or float; 2: a complex; 0: anything else *)
| PAttr (e : pexpr) (a : str)
| PCall (f : pexpr) (args : list pexpr) (kw : list (option str * pexpr))    (* None: double-star mapping *)
| PBin (op : str) (l r : pexpr)                               (* op = the ast class name: Add, Pow, ... *)
| PBool (op : str) (vs : list pexpr)
| PCmp (l : pexpr) (rest : list (str * pexpr))
| PUnary (op : str) (e : pexpr)
| PSub (v sl : pexpr)
| PSlice (lo up st : option pexpr)
| PTuple (l : list pexpr)
| PList (l : list pexpr)
| PSet (l : list pexpr)
| PDict (kv : list (option pexpr * pexpr))                    (* None key: double-star mapping *)
| PIfExp (body test orelse : pexpr)
| PLambda (args : list str) (defaults : list pexpr) (vararg : option str) (kwonly : list str) (kwarg : option str) (body : pexpr)
| PStarred (e : pexpr)
| PNamed (target value : pexpr)                                (* target := value *)
| POther (kind : str) (kids : list pexpr).                    (* any node kind without a visit_ method: children only *)

Definition has_visit (k : str) : bool := existsb (str_eqb k) sourcegen_visits.

Fixpoint join_with (sep : str) (l : list str) : str :=
  match l with [] => [] | [x] => x | x :: r => x ++ sep ++ join_with sep r end.

Fixpoint seq_opt {A} (l : list (option A)) : option (list A) :=
  match l with
  | [] => Some []
  | Some x :: r => match seq_opt r with Some xs => Some (x :: xs) | None => None end
  | None :: _ => None
  end.

Definition comma : str := s2l ", ".

(* repr() of an infinite float is "inf" (a name, not a literal): since fix 2be1737 it is written 1e309, inside complex values too *)
Fixpoint no_inf (r : str) : str :=
  match r with
  | 105 :: 110 :: 102 :: t => s2l "1e309" ++ no_inf t
  | c :: t => c :: no_inf t
  | [] => []
  end.

(* None = the generator raises: KeyError for an operator without symbol, TypeError for a double-star argument *)
Fixpoint print (fuel : nat) (e : pexpr) : option str :=
  match fuel with
  | O => None
  | S f =>
      let pr := print f in
      let prs l := seq_opt (map pr l) in
      match e with
      | PName s => Some s
      | PConst r kind => Some (if kind =? 0 then r else no_inf r)
      | PAttr v a =>
          match pr v with
          | Some sv => match v with
                       | PConst _ 1 => Some ([40] ++ sv ++ [41] ++ [46] ++ a)      (* 1 .real: the dot must not run into the number *)
                       | _ => Some (sv ++ [46] ++ a)
                       end
          | None => None
          end
      | PCall fn args kw =>
          match pr fn, prs args, seq_opt (map (fun ka => match fst ka, pr (snd ka) with
                                                        | Some k, Some v => Some (k ++ [61] ++ v)
                                                        | None, Some v => Some ([42; 42] ++ v)        (* a double-star mapping *)
                                                        | _, None => None
                                                        end) kw) with
          | Some sf, Some sa, Some sk => Some (sf ++ [40] ++ join_with comma (sa ++ sk) ++ [41])
          | _, _, _ => None
          end
      | PBin op l r =>
          match assocS op binop_symbols, pr l, pr r with
          | Some sym, Some sl, Some sr => Some ([40] ++ sl ++ [32] ++ sym ++ [32] ++ sr ++ [41])
          | _, _, _ => None
          end
      | PBool op vs =>
          match assocS op boolop_symbols, prs vs with
          | Some sym, Some svs => Some ([40] ++ join_with ([32] ++ sym ++ [32]) svs ++ [41])
          | _, _ => None
          end
      | PCmp l rest =>
          match pr l, seq_opt (map (fun oe => match assocS (fst oe) cmpop_symbols, pr (snd oe) with
                                              | Some sym, Some s => Some ([32] ++ sym ++ [32] ++ s)
                                              | _, _ => None end) rest) with
          | Some sl, Some parts => Some ([40] ++ sl ++ concat parts ++ [41])
          | _, _ => None
          end
      | PUnary op x =>
          match assocS op unaryop_symbols, pr x with
          | Some sym, Some sx => Some ([40] ++ sym ++ (if str_eqb sym (s2l "not") then [32] else []) ++ sx ++ [41])
          | _, _ => None
          end
      | PSub v sl =>
          match pr v with
          | Some sv =>
              match sl with
              | PTuple (x :: r) =>              (* a tuple of subscripts is written without parentheses *)
                  match prs (x :: r) with
                  | Some [one] => Some (sv ++ [91] ++ one ++ [44] ++ [93])
                  | Some items => Some (sv ++ [91] ++ join_with comma items ++ [93])
                  | None => None
                  end
              | _ => match pr sl with Some ss => Some (sv ++ [91] ++ ss ++ [93]) | None => None end
              end
          | None => None
          end
      | PSlice lo up st =>
          let o x := match x with Some y => pr y | None => Some [] end in
          match o lo, o up, st with
          | Some a, Some b, None => Some (a ++ [58] ++ b)
          | Some a, Some b, Some s =>
              match s with
              | PName nm => if str_eqb nm (s2l "None") then Some (a ++ [58] ++ b ++ [58])
                            else Some (a ++ [58] ++ b ++ [58] ++ nm)
              | _ => match pr s with Some c => Some (a ++ [58] ++ b ++ [58] ++ c) | None => None end
              end
          | _, _, _ => None
          end
      | PTuple l =>
          match prs l with
          | Some [] => Some (s2l "()")
          | Some [x] => Some ([40] ++ x ++ s2l ",)")
          | Some xs => Some ([40] ++ join_with comma xs ++ [41])
          | None => None
          end
      | PList l => match prs l with Some xs => Some ([91] ++ join_with comma xs ++ [93]) | None => None end
      | PSet l => match prs l with Some xs => Some ([123] ++ join_with comma xs ++ [125]) | None => None end
      | PDict kv =>
          match seq_opt (map (fun kv0 => match fst kv0 with
                                         | Some k => match pr k, pr (snd kv0) with Some a, Some b => Some (a ++ s2l ": " ++ b) | _, _ => None end
                                         | None => match pr (snd kv0) with Some b => Some ([42; 42] ++ b) | None => None end   (* a double-star mapping *)
                                         end) kv) with
          | Some xs => Some ([123] ++ join_with comma xs ++ [125])
          | None => None
          end
      | PIfExp b t o =>
          match pr b, pr t, pr o with
          | Some sb, Some st, Some so => Some ([40] ++ sb ++ s2l " if " ++ st ++ s2l " else " ++ so ++ [41])
          | _, _, _ => None
          end
      | PLambda args defaults vararg kwonly kwarg body =>
          (* signature(): args with defaults, star-vararg or a bare star before keyword-only parameters, those, double-star-kwarg *)
          match prs defaults, pr body with
          | Some sd, Some sb =>
              let npad := (length args - length sd)%nat in
              let dopt := repeat None npad ++ map Some sd in
              let items := map (fun ad => match snd ad with Some d => fst ad ++ [61] ++ d | None => fst ad end) (combine args dopt)
                           ++ (match vararg with Some v => [[42] ++ v] | None => match kwonly with [] => [] | _ => [[42]] end end)
                           ++ kwonly
                           ++ (match kwarg with Some k => [[42; 42] ++ k] | None => [] end) in
              Some (s2l "lambda " ++ join_with comma items ++ s2l ": " ++ sb)
          | _, _ => None
          end
      | PStarred x => match pr x with Some s => Some ([42] ++ s) | None => None end
      | PNamed t v => match pr t, pr v with Some st, Some sv => Some ([40] ++ st ++ s2l " := " ++ sv ++ [41]) | _, _ => None end
      | POther kind kids =>
          if has_visit kind then None      (* a kind the model does not cover: not comparable *)
          else match prs kids with Some xs => Some (concat xs) | None => None end
      end
  end.

Definition print_fuel : nat := 64.     (* deeper than any generated expression *)
Definition print_expr (e : pexpr) : option str := print print_fuel e.
