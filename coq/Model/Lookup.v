(* Model/Lookup.v -- TemplateLookup over time: get_template / _check / _load / put_string /
   put_template (mako/lookup.py:227-359) and LRUCache (mako/util.py:161-219) as a state
   machine over a file system with whole-second mtimes and a millisecond clock.
   Definitions only.  URIs and file names are abstract identifiers (uri n <-> file n in
   each directory); versions identify file contents. *)
From MakoV Require Import Lib.Str Gen.Util.
Open Scope N_scope.

Record file := { fver : N; fmtime : N (* whole seconds *); freadable : bool; fcompiles : bool }.

Record entry := {
  e_tid : N;                      (* identity of the Template object *)
  e_src : option (N * N);         (* (directory index, name) or None for put_string *)
  e_ver : N;                      (* content version it was compiled from *)
  e_ctime : N;                    (* module._modified_time, milliseconds *)
  e_stamp : N                     (* LRU timestamp *)
}.

Record cfg := { checks : bool; cap : option N; ndirs : N }.

Record st := {
  clock : N;                                  (* milliseconds *)
  files : list ((N * N) * file);              (* (dir, name) -> file *)
  coll : list (N * entry);                    (* uri -> entry; keys unique; insertion order *)
  next_tid : N;
  next_stamp : N;
  constructions : N
}.

Inductive op :=
| Tick (ms : N)
| Write (d n : N) (ver : N) (mtime : option N)   (* None: mtime = now *)
| Delete (d n : N)
| SetReadable (d n : N) (b : bool)
| SetCompiles (d n : N) (b : bool)
| Get (u : N)
| Has (u : N)
| PutString (u ver : N)
| PutTemplate (u from : N).                      (* re-register the object cached under [from] *)

Inductive result :=
| ROk (tid ver : N)
| RTopLevel | RLookupExc | RCompileErr | ROSError | RBool (b : bool) | RUnit.

Definition key_eqb (a b : N * N) : bool := (fst a =? fst b) && (snd a =? snd b).

Fixpoint file_get (k : N * N) (l : list ((N * N) * file)) : option file :=
  match l with
  | [] => None
  | (k', f) :: r => if key_eqb k k' then Some f else file_get k r
  end.
Fixpoint file_del (k : N * N) (l : list ((N * N) * file)) : list ((N * N) * file) :=
  match l with
  | [] => []
  | (k', f) :: r => if key_eqb k k' then file_del k r else (k', f) :: file_del k r
  end.
Definition file_set (k : N * N) (f : file) l := (k, f) :: file_del k l.

Fixpoint coll_get (u : N) (l : list (N * entry)) : option entry :=
  match l with
  | [] => None
  | (u', e) :: r => if u =? u' then Some e else coll_get u r
  end.
Fixpoint coll_del (u : N) (l : list (N * entry)) : list (N * entry) :=
  match l with
  | [] => []
  | (u', e) :: r => if u =? u' then coll_del u r else (u', e) :: coll_del u r
  end.
Fixpoint coll_update (u : N) (f : entry -> entry) (l : list (N * entry)) : list (N * entry) :=
  match l with
  | [] => []
  | (u', e) :: r => if u =? u' then (u', f e) :: r else (u', e) :: coll_update u f r
  end.

Definition restamp (s : N) (e : entry) : entry :=
  {| e_tid := e_tid e; e_src := e_src e; e_ver := e_ver e; e_ctime := e_ctime e; e_stamp := s |}.

(* ---- LRUCache ------------------------------------------------------------------ *)

(* insertion sort of entries by stamp, newest first (sorted(..., reverse=True)) *)
Fixpoint insert_desc (x : N * entry) (l : list (N * entry)) : list (N * entry) :=
  match l with
  | [] => [x]
  | y :: r => if e_stamp (snd y) <? e_stamp (snd x) then x :: l else y :: insert_desc x r
  end.
Definition sort_desc (l : list (N * entry)) : list (N * entry) := fold_right insert_desc [] l.

Definition over_threshold (c : N) (len : nat) : bool :=
  (* len > capacity + capacity * threshold, threshold = num/den regenerated from util.py *)
  c * lru_threshold_den + c * lru_threshold_num <? N.of_nat len * lru_threshold_den.

(* _manage_size: when over the threshold keep the [capacity] most recently stamped *)
Definition manage_size (c : N) (l : list (N * entry)) : list (N * entry) :=
  if over_threshold c (length l) then
    let doomed := map fst (skipn (N.to_nat c) (sort_desc l)) in
    filter (fun ue => negb (memN (fst ue) doomed)) l
  else l.

(* LRUCache.__getitem__ / dict.__getitem__ *)
Definition coll_read (c : cfg) (s : st) (u : N) : option entry * st :=
  match coll_get u (coll s) with
  | None => (None, s)
  | Some e =>
      match cap c with
      | None => (Some e, s)
      | Some _ =>
          (Some e, {| clock := clock s; files := files s;
                      coll := coll_update u (restamp (next_stamp s)) (coll s);
                      next_tid := next_tid s; next_stamp := next_stamp s + 1;
                      constructions := constructions s |})
      end
  end.

(* __setitem__: new key gets a fresh stamp, an existing key keeps its stamp; then _manage_size *)
Definition coll_store (c : cfg) (s : st) (u : N) (e : entry) : st :=
  match cap c with
  | None =>
      {| clock := clock s; files := files s;
         coll := (match coll_get u (coll s) with
                  | Some _ => coll_update u (fun _ => e) (coll s)
                  | None => coll s ++ [(u, e)] end);
         next_tid := next_tid s; next_stamp := next_stamp s; constructions := constructions s |}
  | Some cp =>
      let l := match coll_get u (coll s) with
               | Some old => coll_update u (fun _ => restamp (e_stamp old) e) (coll s)
               | None => coll s ++ [(u, restamp (next_stamp s) e)]
               end in
      {| clock := clock s; files := files s; coll := manage_size cp l;
         next_tid := next_tid s; next_stamp := next_stamp s + 1; constructions := constructions s |}
  end.

Definition coll_pop (s : st) (u : N) : st :=
  {| clock := clock s; files := files s; coll := coll_del u (coll s);
     next_tid := next_tid s; next_stamp := next_stamp s; constructions := constructions s |}.

(* ---- Template construction ------------------------------------------------------- *)

Inductive built := BOk (e : entry) | BCompileErr | BOSError.

Definition construct_from_file (s : st) (k : N * N) : built * st :=
  match file_get k (files s) with
  | None => (BOSError, s)
  | Some f =>
      if negb (freadable f) then (BOSError, s)
      else if negb (fcompiles f) then (BCompileErr, s)
      else
        (BOk {| e_tid := next_tid s; e_src := Some k; e_ver := fver f; e_ctime := clock s; e_stamp := 0 |},
         {| clock := clock s; files := files s; coll := coll s; next_tid := next_tid s + 1;
            next_stamp := next_stamp s; constructions := constructions s + 1 |})
  end.

(* _load(filename, uri) *)
Definition load (c : cfg) (s : st) (k : N * N) (u : N) : result * st :=
  match coll_read c s u with
  | (Some e, s1) => (ROk (e_tid e) (e_ver e), s1)
  | (None, s1) =>
      match construct_from_file s1 k with
      | (BOk e, s2) => (ROk (e_tid e) (e_ver e), coll_store c s2 u e)
      | (BCompileErr, s2) => (RCompileErr, coll_pop s2 u)
      | (BOSError, s2) => (ROSError, coll_pop s2 u)
      end
  end.

Fixpoint first_dir (fs : list ((N * N) * file)) (n : N) (d : N) (fuel : nat) : option (N * N) :=
  match fuel with
  | O => None
  | S f =>
      match file_get (d, n) fs with
      | Some _ => Some (d, n)
      | None => first_dir fs n (d + 1) f
      end
  end.

(* _check(uri, template) *)
Definition check (c : cfg) (s : st) (u : N) (e : entry) : result * st :=
  match e_src e with
  | None => (ROk (e_tid e) (e_ver e), s)
  | Some k =>
      match file_get k (files s) with
      | None => (RLookupExc, coll_pop s u)                           (* os.stat raised OSError *)
      | Some f =>
          if fmtime f * 1000 <=? e_ctime e then (ROk (e_tid e) (e_ver e), s)
          else
            (* _load runs inside _check's try: an OSError while reading becomes TemplateLookupException *)
            match load c (coll_pop s u) k u with
            | (ROSError, s') => (RLookupExc, s')
            | rs => rs
            end
      end
  end.

Definition get_template (c : cfg) (s : st) (u : N) : result * st :=
  match coll_read c s u with
  | (Some e, s1) => if checks c then check c s1 u e else (ROk (e_tid e) (e_ver e), s1)
  | (None, s1) =>
      match first_dir (files s1) u 0 (N.to_nat (ndirs c)) with
      | Some k => load c s1 k u
      | None => (RTopLevel, s1)
      end
  end.

Definition set_files (s : st) fs : st :=
  {| clock := clock s; files := fs; coll := coll s; next_tid := next_tid s;
     next_stamp := next_stamp s; constructions := constructions s |}.

Definition step (c : cfg) (s : st) (o : op) : result * st :=
  match o with
  | Tick ms => (RUnit, {| clock := clock s + ms; files := files s; coll := coll s; next_tid := next_tid s;
                          next_stamp := next_stamp s; constructions := constructions s |})
  | Write d n v mt =>
      let m := match mt with Some m => m | None => clock s / 1000 end in
      (RUnit, set_files s (file_set (d, n) {| fver := v; fmtime := m; freadable := true; fcompiles := true |} (files s)))
  | Delete d n => (RUnit, set_files s (file_del (d, n) (files s)))
  | SetReadable d n b =>
      match file_get (d, n) (files s) with
      | Some f => (RUnit, set_files s (file_set (d, n) {| fver := fver f; fmtime := fmtime f; freadable := b; fcompiles := fcompiles f |} (files s)))
      | None => (RUnit, s)
      end
  | SetCompiles d n b =>
      match file_get (d, n) (files s) with
      | Some f => (RUnit, set_files s (file_set (d, n) {| fver := fver f; fmtime := fmtime f; freadable := freadable f; fcompiles := b |} (files s)))
      | None => (RUnit, s)
      end
  | Get u => get_template c s u
  | Has u =>
      match get_template c s u with
      | (ROk _ _, s') => (RBool true, s')
      | (RTopLevel, s') => (RBool false, s')
      | (RLookupExc, s') => (RBool false, s')      (* TopLevelLookupException's base class is what has_template catches *)
      | (r, s') => (r, s')
      end
  | PutString u v =>
      let e := {| e_tid := next_tid s; e_src := None; e_ver := v; e_ctime := clock s; e_stamp := 0 |} in
      let s1 := {| clock := clock s; files := files s; coll := coll s; next_tid := next_tid s + 1;
                   next_stamp := next_stamp s; constructions := constructions s + 1 |} in
      (RUnit, coll_store c s1 u e)
  | PutTemplate u from =>
      match coll_get from (coll s) with
      | Some e => (RUnit, coll_store c s u e)
      | None => (RUnit, s)
      end
  end.

Definition init : st := {| clock := 0; files := []; coll := []; next_tid := 0; next_stamp := 1; constructions := 0 |}.

Fixpoint run (c : cfg) (s : st) (ops : list op) : list result * st :=
  match ops with
  | [] => ([], s)
  | o :: r => let (x, s1) := step c s o in let (xs, s2) := run c s1 r in (x :: xs, s2)
  end.

Definition final (c : cfg) (ops : list op) : st := snd (run c init ops).
