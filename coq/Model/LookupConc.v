(* Model/LookupConc.v -- TemplateLookup.get_template split at every shared-state access into
   atomic steps with a per-thread program counter (DESIGN.md appendix C), any number of
   threads, environment steps that change files, schedules as lists of actions.
   One directory; unbounded collection (the LRU bound is C14's).  Definitions only. *)
From MakoV Require Import Lib.Str Lib.Assoc.
Open Scope N_scope.

Record cfile := { cf_ver : N; cf_mtime : N (* seconds *); cf_ok : bool (* compiles *) }.
Record tmpl := { t_id : N; t_ver : N; t_ctime : N (* ms *) }.

Inductive cres := COk (t : tmpl) | CTopLevel | CLookupExc | CCompileErr | COSError.

Inductive pc :=
| G0                      (* coll[uri] *)
| C1 (t : tmpl)           (* os.stat(t.filename) *)
| C2 (t : tmpl)           (* coll.pop(uri) (stale) *)
| E1                      (* coll.pop(uri) then raise TemplateLookupException *)
| M1                      (* os.path.isfile *)
| L0                      (* mutex.acquire *)
| L1                      (* coll[uri] second chance *)
| L2                      (* Template(...) *)
| L3 (t : tmpl)           (* coll[uri] = t *)
| L4 (r : cres)           (* coll.pop(uri) after a failed construction *)
| L5 (r : cres)           (* mutex.release *)
| Done (r : cres).

Record thread := { th_uri : N; th_pc : pc; th_in_check : bool }.

Record cst := {
  cclock : N;
  cfiles : list (N * cfile);
  ccoll : list (N * tmpl);
  cmutex : option N;
  cthreads : list (N * thread);
  cnext : N;
  cconstr : N
}.

Inductive act :=
| Th (i : N)                         (* thread i takes its next step (no-op if finished or blocked) *)
| EWrite (u ver : N) (ok : bool)     (* environment: (re)write the file, mtime = now *)
| EDelete (u : N)
| ETick (ms : N).

Fixpoint ndel {A} (i : N) (l : list (N * A)) : list (N * A) :=
  match l with [] => [] | (j, x) :: r => if i =? j then ndel i r else (j, x) :: ndel i r end.

Definition set_thread (s : cst) (i : N) (t : thread) : cst :=
  {| cclock := cclock s; cfiles := cfiles s; ccoll := ccoll s; cmutex := cmutex s;
     cthreads := nset i t (cthreads s); cnext := cnext s; cconstr := cconstr s |}.
Definition set_coll (s : cst) c : cst :=
  {| cclock := cclock s; cfiles := cfiles s; ccoll := c; cmutex := cmutex s;
     cthreads := cthreads s; cnext := cnext s; cconstr := cconstr s |}.
Definition set_mutex (s : cst) m : cst :=
  {| cclock := cclock s; cfiles := cfiles s; ccoll := ccoll s; cmutex := m;
     cthreads := cthreads s; cnext := cnext s; cconstr := cconstr s |}.
Definition goto (t : thread) (p : pc) : thread := {| th_uri := th_uri t; th_pc := p; th_in_check := th_in_check t |}.

Definition in_critical (p : pc) : bool :=
  match p with L1 | L2 | L3 _ | L4 _ | L5 _ => true | _ => false end.

(* the result delivered when the mutex is released: inside _check an OSError becomes a
   TemplateLookupException (and the entry is popped once more, a no-op here) *)
Definition deliver (in_check : bool) (r : cres) : cres :=
  match r with COSError => if in_check then CLookupExc else COSError | _ => r end.

Definition tstep (checks : bool) (s : cst) (i : N) : cst :=
  match nget i (cthreads s) with
  | None => s
  | Some t =>
      let u := th_uri t in
      match th_pc t with
      | Done _ => s
      | G0 =>
          match nget u (ccoll s) with
          | Some e => set_thread s i (goto t (if checks then C1 e else Done (COk e)))
          | None => set_thread s i (goto t M1)
          end
      | C1 e =>
          match nget u (cfiles s) with
          | None => set_thread s i (goto t E1)
          | Some f =>
              if cf_mtime f * 1000 <=? t_ctime e then set_thread s i (goto t (Done (COk e)))
              else set_thread s i (goto t (C2 e))
          end
      | C2 e =>
          set_thread (set_coll s (ndel u (ccoll s))) i
            {| th_uri := u; th_pc := L0; th_in_check := true |}
      | E1 => set_thread (set_coll s (ndel u (ccoll s))) i (goto t (Done CLookupExc))
      | M1 =>
          match nget u (cfiles s) with
          | Some _ => set_thread s i (goto t L0)
          | None => set_thread s i (goto t (Done CTopLevel))
          end
      | L0 =>
          match cmutex s with
          | None => set_thread (set_mutex s (Some i)) i (goto t L1)
          | Some _ => s                                          (* blocked *)
          end
      | L1 =>
          match nget u (ccoll s) with
          | Some e => set_thread s i (goto t (L5 (COk e)))
          | None => set_thread s i (goto t L2)
          end
      | L2 =>
          match nget u (cfiles s) with
          | None => set_thread s i (goto t (L4 COSError))
          | Some f =>
              if cf_ok f then
                let e := {| t_id := cnext s; t_ver := cf_ver f; t_ctime := cclock s |} in
                set_thread {| cclock := cclock s; cfiles := cfiles s; ccoll := ccoll s; cmutex := cmutex s;
                              cthreads := cthreads s; cnext := cnext s + 1; cconstr := cconstr s + 1 |}
                           i (goto t (L3 e))
              else set_thread s i (goto t (L4 CCompileErr))
          end
      | L3 e => set_thread (set_coll s (nset u e (ccoll s))) i (goto t (L5 (COk e)))
      | L4 r => set_thread (set_coll s (ndel u (ccoll s))) i (goto t (L5 r))
      | L5 r => set_thread (set_mutex s None) i (goto t (Done (deliver (th_in_check t) r)))
      end
  end.

Definition cstep_conc (checks : bool) (s : cst) (a : act) : cst :=
  match a with
  | Th i => tstep checks s i
  | EWrite u v ok =>
      {| cclock := cclock s;
         cfiles := nset u {| cf_ver := v; cf_mtime := cclock s / 1000; cf_ok := ok |} (cfiles s);
         ccoll := ccoll s; cmutex := cmutex s; cthreads := cthreads s; cnext := cnext s; cconstr := cconstr s |}
  | EDelete u =>
      {| cclock := cclock s; cfiles := ndel u (cfiles s); ccoll := ccoll s; cmutex := cmutex s;
         cthreads := cthreads s; cnext := cnext s; cconstr := cconstr s |}
  | ETick ms =>
      {| cclock := cclock s + ms; cfiles := cfiles s; ccoll := ccoll s; cmutex := cmutex s;
         cthreads := cthreads s; cnext := cnext s; cconstr := cconstr s |}
  end.

Definition crun_conc (checks : bool) (s : cst) (sched : list act) : cst := fold_left (cstep_conc checks) sched s.

Definition conc_init (clock : N) (files : list (N * cfile)) (coll : list (N * tmpl)) (uris : list (N * N)) (next : N) : cst :=
  {| cclock := clock; cfiles := files; ccoll := coll; cmutex := None;
     cthreads := map (fun iu => (fst iu, {| th_uri := snd iu; th_pc := G0; th_in_check := false |})) uris;
     cnext := next; cconstr := 0 |}.

Definition is_done (p : pc) : bool := match p with Done _ => true | _ => false end.

(* a step of thread i is enabled unless it is finished or waits for a mutex somebody holds *)
Definition enabled_th (s : cst) (i : N) : bool :=
  match nget i (cthreads s) with
  | None => false
  | Some t =>
      match th_pc t with
      | Done _ => false
      | L0 => match cmutex s with None => true | Some _ => false end
      | _ => true
      end
  end.
