(* Model/Cache.v -- cached sections: Cache._ctx_get_or_create / _get_cache_kw / invalidate_*
   (mako/cache.py:64-179), the key and argument selection of write_cache_decorator
   (mako/codegen.py:692-773), the cache id = module name = module_id of the URI
   (mako/template.py:255-259), over a reference backend keyed by (cache id, key).
   Outputs are symbolic trees, so "replays its exact output" is equality of values.
   Definitions only. *)
From MakoV Require Import Lib.Str Gen.Unicode.
Open Scope N_scope.

(* ---- cache id --------------------------------------------------------------------- *)
(* Template.module_id = re.sub(r"\W", "_", uri) *)
Definition module_id (uri : str) : str := map (fun c => if is_word c then c else 95) uri.

(* ---- sections and symbolic output --------------------------------------------------- *)
Inductive keyspec :=
| KConst (k : str)            (* the callable's name / __M_anon_<line> *)
| KCtx (var : N).             (* cache_key="${x}" : the value of a context variable *)

Inductive sec := Sec (id : N) (cached : bool) (key : keyspec) (kids : list sec).

(* what one execution of a section writes: its id, its execution number, the context value
   it saw, and what its children wrote *)
Inductive val := Val (id : N) (exec_no : N) (ctxval : N) (kids : list val).

(* keys are strings; a context value n used as a key is the string of that number, modelled
   as a tagged string so that it cannot collide with a name by accident of the model *)
Definition key_of (ctx : N -> N) (k : keyspec) : str :=
  match k with
  | KConst s => 0 :: s
  | KCtx v => [1; ctx v]
  end.

Record cstate := {
  store : list ((str * str) * val);      (* (cache id, key) -> value : the backend *)
  counters : list (N * N);               (* section id -> number of executions so far *)
  enabled : list (str * bool)            (* uri -> Template.cache_enabled (default true) *)
}.

Definition pair_eqb (a b : str * str) : bool := str_eqb (fst a) (fst b) && str_eqb (snd a) (snd b).

Fixpoint slookup (k : str * str) (l : list ((str * str) * val)) : option val :=
  match l with
  | [] => None
  | (k', v) :: r => if pair_eqb k k' then Some v else slookup k r
  end.
Fixpoint sdel (k : str * str) (l : list ((str * str) * val)) : list ((str * str) * val) :=
  match l with
  | [] => []
  | (k', v) :: r => if pair_eqb k k' then sdel k r else (k', v) :: sdel k r
  end.
Definition sput (k : str * str) (v : val) l := (k, v) :: sdel k l.

Fixpoint cget (i : N) (l : list (N * N)) : N :=
  match l with [] => 0 | (j, n) :: r => if i =? j then n else cget i r end.
Fixpoint cset (i n : N) (l : list (N * N)) : list (N * N) :=
  match l with
  | [] => [(i, n)]
  | (j, m) :: r => if i =? j then (i, n) :: r else (j, m) :: cset i n r
  end.

Definition is_enabled (s : cstate) (uri : str) : bool :=
  match assocS uri (enabled s) with Some b => b | None => true end.

Definition with_store (s : cstate) st := {| store := st; counters := counters s; enabled := enabled s |}.
Definition with_counters (s : cstate) c := {| store := store s; counters := c; enabled := enabled s |}.

(* one rendering of a section of the template at [uri] under context [ctx], written with open
   recursion: [rec] renders a child (it is render_sec with one unit of fuel less);
   None = out of fuel (sections nest more deeply than the fuel given) *)
Definition renderer := str -> (N -> N) -> cstate -> sec -> option (val * cstate).

Fixpoint render_kids (rec : renderer) (uri : str) (ctx : N -> N) (st : cstate) (l : list sec)
  : option (list val * cstate) :=
  match l with
  | [] => Some ([], st)
  | k :: r =>
      match rec uri ctx st k with
      | None => None
      | Some (v, st1) =>
          match render_kids rec uri ctx st1 r with
          | None => None
          | Some (vs, st2) => Some (v :: vs, st2)
          end
      end
  end.

(* the body of a section runs: its counter goes up, its children are rendered in order *)
Definition exec_sec (rec : renderer) (uri : str) (ctx : N -> N) (s0 : cstate) (id : N) (kids : list sec)
  : option (val * cstate) :=
  let n := cget id (counters s0) + 1 in
  let s1 := with_counters s0 (cset id n (counters s0)) in
  match render_kids rec uri ctx s1 kids with
  | None => None
  | Some (vs, s2) => Some (Val id n (ctx 0) vs, s2)
  end.

Definition render_sec_body (rec : renderer) : renderer := fun uri ctx s x =>
  match x with
  | Sec id cached key kids =>
      if cached && is_enabled s uri then
        let k := (module_id uri, key_of ctx key) in
        match slookup k (store s) with
        | Some v => Some (v, s)                         (* replay: nothing runs *)
        | None =>
            match exec_sec rec uri ctx s id kids with
            | None => None
            | Some (v, s2) => Some (v, with_store s2 (sput k v (store s2)))
            end
        end
      else exec_sec rec uri ctx s id kids
  end.

Fixpoint render_sec (fuel : nat) : renderer :=
  match fuel with
  | O => fun _ _ _ _ => None
  | S f => render_sec_body (render_sec f)
  end.

Fixpoint render_all (fuel : nat) (uri : str) (ctx : N -> N) (s : cstate) (l : list sec) : option (list val * cstate) :=
  match l with
  | [] => Some ([], s)
  | x :: r =>
      match render_sec fuel uri ctx s x with
      | None => None
      | Some (v, s1) =>
          match render_all fuel uri ctx s1 r with
          | None => None
          | Some (vs, s2) => Some (v :: vs, s2)
          end
      end
  end.

Inductive cop :=
| Render (uri : str) (ctxv : N)             (* every context variable has the value ctxv *)
| Invalidate (uri : str) (key : str)        (* invalidate_body / _def / _closure / invalidate(k) *)
| CSet (uri : str) (key : str) (v : val)
| SetEnabled (uri : str) (b : bool).

Definition cinit : cstate := {| store := []; counters := []; enabled := [] |}.

Definition cstep (tmpls : list (str * list sec)) (fuel : nat) (s : cstate) (o : cop) : option (list val * cstate) :=
  match o with
  | Render uri c =>
      match assocS uri tmpls with
      | Some secs => render_all fuel uri (fun _ => c) s secs
      | None => Some ([], s)
      end
  | Invalidate uri k => Some ([], with_store s (sdel (module_id uri, k) (store s)))
  | CSet uri k v => Some ([], with_store s (sput (module_id uri, k) v (store s)))
  | SetEnabled uri b =>
      Some ([], {| store := store s; counters := counters s;
                   enabled := (uri, b) :: enabled s |})
  end.

Fixpoint crun (tmpls : list (str * list sec)) (fuel : nat) (s : cstate) (ops : list cop) : option (list (list val) * cstate) :=
  match ops with
  | [] => Some ([], s)
  | o :: r =>
      match cstep tmpls fuel s o with
      | None => None
      | Some (vs, s1) =>
          match crun tmpls fuel s1 r with
          | None => None
          | Some (vss, s2) => Some (vs :: vss, s2)
          end
      end
  end.

(* ---- write_cache_decorator: argument precedence ----------------------------------------- *)
(* arguments are (name, value) with symbolic values; the backend receives the template's
   cache_args overridden by the <%page> cache_* attributes overridden by the section's own *)
Fixpoint aget (k : str) (l : list (str * N)) : option N :=
  match l with [] => None | (k', v) :: r => if str_eqb k k' then Some v else aget k r end.

Definition update (base over : list (str * N)) : list (str * N) :=
  (* dict.update: keys of [over] replace / extend [base] *)
  over ++ filter (fun kv => match aget (fst kv) over with Some _ => false | None => true end) base.

Definition final_args (tmpl page section : list (str * N)) : list (str * N) :=
  update tmpl (update page section).

(* _get_cache_kw: a render ([rendering] = true, from _ctx_get_or_create) always computes its own arguments and
   records them for its defname; an invalidate_*() ([rendering] = false, which brings no arguments of its own) uses the
   recorded ones, or the template-level ones when the section has not rendered yet -- and records nothing *)
Fixpoint remove_key (k : str) (l : list (str * list (str * N))) : list (str * list (str * N)) :=
  match l with
  | [] => []
  | (k', v) :: r => if str_eqb k k' then remove_key k r else (k', v) :: remove_key k r
  end.

Definition get_cache_kw (regions : list (str * list (str * N))) (defname : str) (rendering : bool) (tmpl kw : list (str * N))
  : list (str * N) * list (str * list (str * N)) :=
  if rendering then let a := update tmpl kw in (a, (defname, a) :: remove_key defname regions)
  else match assocS defname regions with
       | Some a => (a, regions)
       | None => (update tmpl kw, regions)
       end.
