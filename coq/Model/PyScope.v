(* Model/PyScope.v -- pyparser.FindIdentifiers (mako/pyparser.py:71-204): which names of a piece of
   embedded Python are reported as declared / undeclared, over a small Python AST that keeps every
   binding form (assignment, for, import, def with every parameter kind and defaults, lambda,
   comprehensions, except-as); and Python's own scoping rules, written independently, as the
   reference.  Names are numbers.  Definitions only. *)
From MakoV Require Import Lib.Str.
Open Scope N_scope.

Record params := {
  p_pos : list N;                 (* positional (and positional-only) parameters: node.args.args *)
  p_star : option N;              (* *args *)
  p_kwonly : list N;              (* keyword-only *)
  p_dstar : option N              (* **kwargs *)
}.

Inductive expr :=
| EName (x : N)                                   (* a name that is read *)
| EConst
| EOp (l : list expr)                             (* operator / call / attribute / container: operands in order *)
| ELambda (ps : params) (defaults : list expr) (body : expr)
| EComp (elt : list expr) (target : list N) (iter : expr) (ifs : list expr).   (* one-generator comprehension *)

Inductive stmt :=
| SExpr (e : expr)
| SAssign (targets : list N) (e : expr)
| SFor (target : list N) (iter : expr) (body orelse : list stmt)
| SIf (test : expr) (body orelse : list stmt)
| SImport (names : list N)
| SDef (name : N) (ps : params) (defaults : list expr) (body : list stmt)
| STryExcept (body : list stmt) (exc_type : option expr) (exc_name : option N) (handler : list stmt).

(* ---- FindIdentifiers ---------------------------------------------------------------------------- *)
Record fstate := {
  in_function : bool;
  locals : list N;               (* local_ident_stack *)
  declared : list N;
  undeclared : list N
}.
Definition f0 : fstate := {| in_function := false; locals := []; declared := []; undeclared := [] |}.

Definition add_declared (s : fstate) (x : N) : fstate :=
  if in_function s then {| in_function := true; locals := x :: locals s; declared := declared s; undeclared := undeclared s |}
  else {| in_function := false; locals := locals s; declared := x :: declared s; undeclared := undeclared s |}.

Definition read_name (s : fstate) (x : N) : fstate :=
  if memN x (declared s) || memN x (locals s) then s
  else {| in_function := in_function s; locals := locals s; declared := declared s; undeclared := x :: undeclared s |}.

Definition all_params (ps : params) : list N :=
  p_pos ps ++ (match p_star ps with Some a => [a] | None => [] end) ++ p_kwonly ps ++ (match p_dstar ps with Some k => [k] | None => [] end).

Fixpoint fi_expr (fuel : nat) (s : fstate) (e : expr) : fstate :=
  match fuel with
  | O => s
  | S f =>
      match e with
      | EName x => read_name s x
      | EConst => s
      | EOp l => fold_left (fi_expr f) l s
      | ELambda ps defaults body =>
          (* _visit_function: the defaults are read in the enclosing scope, then every parameter is local *)
          let s0 := fold_left (fi_expr f) defaults s in
          let s1 := {| in_function := true; locals := all_params ps ++ locals s0; declared := declared s0; undeclared := undeclared s0 |} in
          let s2 := fi_expr f s1 body in
          {| in_function := in_function s0; locals := locals s0; declared := declared s2; undeclared := undeclared s2 |}
      | EComp elt target iter ifs =>
          if in_function s then
            (* inside a function a comprehension is a scope of its own: the iterable is read outside it,
               the targets are local to it, conditions and elements are read within it *)
            let s1 := fi_expr f s iter in
            let s2 := fold_left add_declared target s1 in
            let s3 := fold_left (fi_expr f) ifs s2 in
            let s4 := fold_left (fi_expr f) elt s3 in
            {| in_function := in_function s1; locals := locals s1; declared := declared s4; undeclared := undeclared s4 |}
          else
            (* generic_visit: element first, then the generator (target, iter, ifs) *)
            let s1 := fold_left (fi_expr f) elt s in
            let s2 := fold_left add_declared target s1 in
            let s3 := fi_expr f s2 iter in
            fold_left (fi_expr f) ifs s3
      end
  end.

Fixpoint fi_stmt (fuel : nat) (s : fstate) (st : stmt) : fstate :=
  match fuel with
  | O => s
  | S f =>
      match st with
      | SExpr e => fi_expr f s e
      | SAssign targets e => fold_left add_declared targets (fi_expr f s e)
      | SFor target iter body orelse =>
          let s1 := fi_expr f s iter in
          let s2 := fold_left add_declared target s1 in
          fold_left (fi_stmt f) orelse (fold_left (fi_stmt f) body s2)
      | SIf test body orelse =>
          fold_left (fi_stmt f) orelse (fold_left (fi_stmt f) body (fi_expr f s test))
      | SImport names => fold_left add_declared names s
      | SDef name ps defaults body =>
          let s0 := fold_left (fi_expr f) defaults (add_declared s name) in
          let s1 := {| in_function := true; locals := all_params ps ++ locals s0; declared := declared s0; undeclared := undeclared s0 |} in
          let s2 := fold_left (fi_stmt f) body s1 in
          {| in_function := in_function s0; locals := locals s0; declared := declared s2; undeclared := undeclared s2 |}
      | STryExcept body ty name handler =>
          let s1 := fold_left (fi_stmt f) body s in
          let s2 := match name with Some n => add_declared s1 n | None => s1 end in
          let s3 := match ty with Some t => fi_expr f s2 t | None => s2 end in
          fold_left (fi_stmt f) handler s3
      end
  end.

Definition find_identifiers_f (fuel : nat) (code : list stmt) : list N * list N :=
  let s := fold_left (fi_stmt fuel) code f0 in (declared s, undeclared s).
Definition scope_fuel : nat := 64.      (* deeper nesting than the generated programs ever have *)
Definition find_identifiers (code : list stmt) : list N * list N := find_identifiers_f scope_fuel code.

(* ---- Python's scoping, as the reference ----------------------------------------------------------- *)

Definition minus (a b : list N) : list N := filter (fun x => negb (memN x b)) a.

(* names an expression reads from the scope it is evaluated in *)
Fixpoint free_expr (fuel : nat) (e : expr) : list N :=
  match fuel with
  | O => []
  | S f =>
      match e with
      | EName x => [x]
      | EConst => []
      | EOp l => flat_map (free_expr f) l
      | ELambda ps defaults body => flat_map (free_expr f) defaults ++ minus (free_expr f body) (all_params ps)
      | EComp elt target iter ifs => free_expr f iter ++ minus (flat_map (free_expr f) elt ++ flat_map (free_expr f) ifs) target
      end
  end.

(* names a statement list binds in its own (function) scope *)
Fixpoint binds (fuel : nat) (l : list stmt) : list N :=
  match fuel with
  | O => []
  | S f =>
      flat_map (fun st =>
        match st with
        | SExpr _ => []
        | SAssign t _ => t
        | SFor t _ b o => t ++ binds f b ++ binds f o
        | SIf _ b o => binds f b ++ binds f o
        | SImport n => n
        | SDef name _ _ _ => [name]
        | STryExcept b _ n h => binds f b ++ (match n with Some x => [x] | None => [] end) ++ binds f h
        end) l
  end.

(* names a nested function body needs from outside it *)
Fixpoint free_stmts (fuel : nat) (l : list stmt) : list N :=
  match fuel with
  | O => []
  | S f =>
      flat_map (fun st =>
        match st with
        | SExpr e => free_expr f e
        | SAssign _ e => free_expr f e
        | SFor _ it b o => free_expr f it ++ free_stmts f b ++ free_stmts f o
        | SIf t b o => free_expr f t ++ free_stmts f b ++ free_stmts f o
        | SImport _ => []
        | SDef _ ps defaults body =>
            flat_map (free_expr f) defaults ++ minus (free_stmts f body) (all_params ps ++ binds f body)
        | STryExcept b ty _ h => free_stmts f b ++ (match ty with Some t => free_expr f t | None => [] end) ++ free_stmts f h
        end) l
  end.

(* what the block must obtain from the template's namespace: the names it reads without having
   bound them itself *)
Definition needs_f (fuel : nat) (code : list stmt) : list N := minus (free_stmts fuel code) (binds fuel code).
Definition needs_from_namespace (code : list stmt) : list N := needs_f scope_fuel code.
