(* Model/PyPrinter.v -- PythonPrinter.writeline's indentation machine (mako/pygen.py:81-157):
   the classification of a line by the printer's regular expressions, the indent counter and the
   indent_detail stack; and visitControlLine's rule for inserting "pass" (mako/codegen.py:838-866).
   Definitions only. *)
From MakoV Require Import Lib.Str Gen.Unicode.
Open Scope N_scope.

(* ---- classification of a line (strings) ------------------------------------------------------------ *)
Fixpoint lstrip_s (l : str) : str := match l with c :: r => if is_space c then lstrip_s r else l | [] => [] end.

Definition first_prefix (alts : list str) (l : str) : option str :=
  find (fun a => starts_with a l) alts.

(* the printer's _re_compound: leading whitespace then if, try, elif, while, for, with -- no word boundary, alternatives in this order *)
Definition compound_kw (l : str) : option str :=
  first_prefix [s2l "if"; s2l "try"; s2l "elif"; s2l "while"; s2l "for"; s2l "with"] (lstrip_s l).
(* the printer's _re_indent_keyword: def, class, else, elif, except, finally *)
Definition indent_kw (l : str) : option str :=
  first_prefix [s2l "def"; s2l "class"; s2l "else"; s2l "elif"; s2l "except"; s2l "finally"] (lstrip_s l).

(* (after fix ea5ddf9 the printer's expression crosses the newline of a backslash-continued control line) *)
Fixpoint has_colon_later (l : str) : bool :=
  match l with c :: r => (c =? 58) || has_colon_later r | [] => false end.
(* the printer's _re_unindentor: leading whitespace, else / elif / except / finally, then a colon later in the text of the line *)
Definition re_unindentor (l : str) : bool :=
  let t := lstrip_s l in
  match first_prefix [s2l "else"; s2l "elif"; s2l "except"; s2l "finally"] t with
  | Some k => has_colon_later (skipn (length k) t)
  | None => false
  end.

Fixpoint drop_blanks (l : str) : str := match l with c :: r => if (c =? 32) || (c =? 9) then drop_blanks r else l | [] => [] end.
Fixpoint no_lf_b (l : str) : bool := match l with c :: r => negb (c =? LF) && no_lf_b r | [] => true end.

(* the rest after a colon: blanks, then nothing or a comment to the end (the end also being just before one final line feed) *)
Definition after_colon_ok (r : str) : bool :=
  match drop_blanks r with
  | [] => true
  | [c] => (c =? LF) || (c =? 35)
  | c :: r' => (c =? 35) && (let body := match rev r' with x :: y => if x =? LF then rev y else r' | [] => r' end in no_lf_b body)
  end.
(* the printer's _re_indent, searched anywhere: a colon followed as above *)
Fixpoint re_indent (l : str) : bool :=
  match l with
  | c :: r => ((c =? 58) && after_colon_ok r) || re_indent r
  | [] => false
  end.

Definition all_space (l : str) : bool := forallb is_space l.
Definition space_comment (l : str) : bool := match lstrip_s l with c :: _ => c =? 35 | [] => false end.

(* ---- the machine ------------------------------------------------------------------------------------- *)
Inductive lkind :=
| LNone                      (* writeline(None) *)
| LLine (is_comment hastext unindentor opens : bool) (pushes : option bool).
   (* pushes: None = the line does not open a block; Some true = it is remembered as a statement or
      clause that may be followed by a clause; Some false = def / class *)

Definition clause_kw (k : str) : bool := str_eqb k (s2l "else") || str_eqb k (s2l "except") || str_eqb k (s2l "finally").

Definition classify (line : option str) : lkind :=
  match line with
  | None => LNone
  | Some l =>
      let hastext := negb (space_comment l || all_space l) in
      let is_comment := match l with c :: _ => c =? 35 | [] => false end in
      let pushes := if re_indent l then
                      match compound_kw l with
                      | Some _ => Some true
                      | None => match indent_kw l with Some k => Some (clause_kw k) | None => None end
                      end
                    else None in
      LLine is_comment hastext (re_unindentor l) (re_indent l) pushes
  end.

Record pstate := { indent : nat; detail : list bool }.     (* true: may be followed by a clause *)
Definition pinit : pstate := {| indent := 0; detail := [] |}.

Inductive pres :=
| POk (s : pstate) (written_at : option nat)      (* the indentation level the line was written at *)
| PTooManyClosures.

Definition pstep (s : pstate) (k : lkind) : pres :=
  let dedent_if (b : bool) (cont : pstate -> pres) : pres :=
    if b && negb (Nat.eqb (indent s) 0) then
      match detail s with
      | [] => PTooManyClosures
      | _ :: d => cont {| indent := pred (indent s); detail := d |}
      end
    else cont s in
  match k with
  | LNone => dedent_if true (fun s1 => POk s1 None)
  | LLine is_comment hastext unind _ pushes =>
      let is_unindentor := match detail s with true :: _ => unind | _ => false end in
      dedent_if (negb is_comment && (negb hastext || is_unindentor))
        (fun s1 =>
           let s2 := match pushes with
                     | Some b => {| indent := S (indent s1); detail := b :: detail s1 |}
                     | None => s1
                     end in
           POk s2 (Some (indent s1)))
  end.

Fixpoint prun (s : pstate) (ks : list lkind) : option (pstate * list nat) :=
  match ks with
  | [] => Some (s, [])
  | k :: r =>
      match pstep s k with
      | POk s1 w =>
          match prun s1 r with
          | Some (s2, ws) => Some (s2, match w with Some n => n :: ws | None => ws end)
          | None => None
          end
      | PTooManyClosures => None
      end
  end.

Definition print_lines (lines : list (option str)) : option (pstate * list nat) := prun pinit (map classify lines).

(* ---- what visitControlLine emits for a tree of control structures -------------------------------------- *)
Inductive ctree :=
| TPlain                                            (* a statement line: __M_writer(..), pass, ... *)
| TComment                                          (* a line starting with # *)
| TBlock (body : ctrees) (clauses : cclauses)       (* if / for / while / try / with ... with elif / else / except clauses *)
| TDef (body : ctrees)                              (* def ...: body, closed by None *)
with ctrees := TNil | TCons (t : ctree) (r : ctrees)
with cclauses := CNil | CCons (body : ctrees) (r : cclauses).

Definition k_plain : lkind := LLine false true false false None.
Definition k_comment : lkind := LLine true false false false None.
Definition k_open : lkind := LLine false true false true (Some true).
Definition k_clause : lkind := LLine false true true true (Some true).
Definition k_def : lkind := LLine false true false true (Some false).

Fixpoint emit (t : ctree) : list lkind :=
  match t with
  | TPlain => [k_plain]
  | TComment => [k_comment]
  | TBlock body clauses => k_open :: emits body ++ emit_clauses clauses ++ [LNone]
  | TDef body => k_def :: emits body ++ [LNone]
  end
with emits (l : ctrees) : list lkind :=
  match l with TNil => [] | TCons t r => emit t ++ emits r end
with emit_clauses (c : cclauses) : list lkind :=
  match c with CNil => [] | CCons body r => k_clause :: emits body ++ emit_clauses r end.

(* the indentation each written line should have: its depth in the tree *)
Fixpoint depths (d : nat) (t : ctree) : list nat :=
  match t with
  | TPlain | TComment => [d]
  | TBlock body clauses => d :: depths_l (S d) body ++ depths_c d clauses
  | TDef body => d :: depths_l (S d) body
  end
with depths_l (d : nat) (l : ctrees) : list nat :=
  match l with TNil => [] | TCons t r => depths d t ++ depths_l d r end
with depths_c (d : nat) (c : cclauses) : list nat :=
  match c with CNil => [] | CCons body r => d :: depths_l (S d) body ++ depths_c d r end.

(* ---- the pass rule ----------------------------------------------------------------------------------- *)
Inductive child := ChComment | ChTernary | ChEnd | ChPrimary | ChEmits | ChSilent | ChHidden.
   (* ChEmits: text, expression, code, include, call, block ...: writes a statement where it stands.
      ChSilent: a node that writes nothing where it stands (def, namespace, page, inherit, module-level
      code).  ChHidden: a node inside a def or namespace tag -- the lexer lists it among the children of
      the open control line, but it is written elsewhere *)

Definition is_control (c : child) : bool := match c with ChTernary | ChEnd | ChPrimary => true | _ => false end.
Definition is_silent (c : child) : bool := match c with ChComment | ChSilent => true | _ => false end.
Definition visible (cs : list child) : list child := filter (fun c => match c with ChHidden => false | _ => true end) cs.

Fixpoint search_for_control_line (cs : list child) : bool :=
  match cs with
  | [] => false
  | c :: r => if is_silent c then search_for_control_line r else is_control c
  end.

Definition needs_pass (cs0 : list child) : bool :=
  let cs := visible cs0 in
  match cs with
  | [] => true
  | _ =>
      (forallb (fun c => is_silent c || is_control c) cs
       && forallb (fun c => match c with ChPrimary => false | _ => true end) (filter is_control cs))
      || search_for_control_line cs
  end.

(* does the block have a statement of its own before its next clause or its end? *)
Fixpoint body_has_statement (cs : list child) : bool :=
  match cs with
  | [] => false
  | ChTernary :: _ | ChEnd :: _ => false
  | ChPrimary :: _ | ChEmits :: _ => true
  | _ :: r => body_has_statement r
  end.
