(* Model/Paths.v -- posixpath.normpath/join/dirname (line-by-line mirrors of CPython's
   posixpath, validated against it by the correspondence run), and the URI handling of
   mako/lookup.py (get_template, adjust_uri) and mako/template.py (Template.__init__).
   Definitions only. *)
From MakoV Require Import Lib.Str.
Open Scope N_scope.

Definition SLASH : N := 47.
Definition BACKSLASH : N := 92.
Definition dot : str := [46].
Definition dotdot : str := [46; 46].

(* str.split(sep): always at least one element *)
Fixpoint split_on (sep : N) (s : str) : list str :=
  match s with
  | [] => [[]]
  | c :: r =>
      if c =? sep then [] :: split_on sep r
      else match split_on sep r with
           | h :: t => (c :: h) :: t
           | [] => [[c]]
           end
  end.

Fixpoint join_sep (sep : N) (l : list str) : str :=
  match l with
  | [] => []
  | [x] => x
  | x :: r => x ++ sep :: join_sep sep r
  end.

Definition is_nil (s : str) : bool := match s with [] => true | _ => false end.

(* one iteration of the component loop of posixpath.normpath; the stack has its top first *)
Definition norm_step (abs : bool) (stk : list str) (comp : str) : list str :=
  if is_nil comp || str_eqb comp dot then stk
  else if negb (str_eqb comp dotdot) then comp :: stk
  else match stk with
       | [] => if abs then [] else [dotdot]
       | top :: rest => if str_eqb top dotdot then dotdot :: stk else rest
       end.

Definition run_norm (abs : bool) (stk : list str) (comps : list str) : list str :=
  fold_left (norm_step abs) comps stk.

Fixpoint count_leading (c : N) (s : str) : nat :=
  match s with
  | x :: r => if x =? c then S (count_leading c r) else O
  | [] => O
  end.

Definition initial_slashes (s : str) : nat :=
  match count_leading SLASH s with
  | O => O
  | 1%nat => 1%nat
  | 2%nat => 2%nat
  | _ => 1%nat
  end.

Definition is_abs (s : str) : bool := match s with c :: _ => c =? SLASH | [] => false end.

(* the normalised component stack (top first) of a path *)
Definition norm_stack (s : str) : list str := run_norm (is_abs s) [] (split_on SLASH s).

Definition normpath (s : str) : str :=
  if is_nil s then dot
  else
    let p := repeat SLASH (initial_slashes s) ++ join_sep SLASH (rev (norm_stack s)) in
    if is_nil p then dot else p.

Definition ends_with_slash (s : str) : bool :=
  match rev s with c :: _ => c =? SLASH | [] => false end.

(* posixpath.join(a, b) *)
Definition join (a b : str) : str :=
  if is_abs b then b
  else if is_nil a || ends_with_slash a then a ++ b
  else a ++ SLASH :: b.

(* posixpath.dirname *)
Fixpoint rstrip_c (c : N) (rs : str) : str :=       (* on the reversed string *)
  match rs with
  | x :: r => if x =? c then rstrip_c c r else rs
  | [] => []
  end.
Fixpoint drop_to_slash (rs : str) : str :=           (* reversed: drop the last component *)
  match rs with
  | x :: r => if x =? SLASH then rs else drop_to_slash r
  | [] => []
  end.
Definition dirname (p : str) : str :=
  let rhead := drop_to_slash (rev p) in
  if is_nil rhead || forallb (fun c => c =? SLASH) rhead then rev rhead
  else rev (rstrip_c SLASH rhead).

(* ---- mako ---------------------------------------------------------------- *)

Fixpoint lstrip_c (c : N) (s : str) : str :=
  match s with
  | x :: r => if x =? c then lstrip_c c r else s
  | [] => []
  end.

Definition unbackslash (s : str) : str := map (fun c => if c =? BACKSLASH then SLASH else c) s.

(* lookup.py: re.sub(r"^\/+", "", uri.replace("\\", "/")) *)
Definition clean_lookup (uri : str) : str := lstrip_c SLASH (unbackslash uri).
(* template.py: self.uri.replace("\\", "/").lstrip("/") *)
Definition clean_template (uri : str) : str :=
  let u := unbackslash uri in
  (fix go (s : str) : str := match s with x :: r => if x =? SLASH then go r else s | [] => [] end) u.

Definition u_norm (uri : str) : str := normpath (clean_template uri).

(* Template.__init__: false = raises TemplateLookupException *)
Definition template_check (uri : str) : bool := negb (starts_with dotdot (u_norm uri)).

Inductive outcome :=
| Found (file : str)
| TopLevelLookup          (* TopLevelLookupException *)
| LookupExc.              (* TemplateLookupException *)

(* TemplateLookup.get_template on an empty collection; [dirs] are the normalised
   directories; [isfile] is the file-system oracle *)
Fixpoint get_template (isfile : str -> bool) (dirs : list str) (uri : str) : outcome :=
  match dirs with
  | [] => TopLevelLookup
  | d :: ds =>
      let src := normpath (join d (clean_lookup uri)) in
      if isfile src then (if template_check uri then Found src else LookupExc)
      else get_template isfile ds uri
  end.

Definition lookup_dirs (raw : list str) : list str := map normpath raw.

(* adjust_uri(uri, relativeto); uri must be non-empty (uri[0]) *)
Definition adjust_uri (uri : str) (relativeto : option str) : str :=
  if is_abs uri then uri
  else match relativeto with
       | Some r => join (dirname r) uri
       | None => SLASH :: uri
       end.

(* module file path below module_directory (before abspath) *)
Definition module_path (md uri : str) : str := join (normpath md) (u_norm uri ++ s2l ".py").

(* ---- the property as a decidable predicate -------------------------------- *)

Definition plain (c : str) : bool :=
  negb (is_nil c) && negb (str_eqb c dot) && negb (str_eqb c dotdot) && negb (memN SLASH c).

Fixpoint is_suffix_stack (base full : list str) (fuel : nat) : option (list str) :=
  (* full = segs ++ base  ->  Some segs *)
  if (Nat.eqb (length full) (length base)) then
    (if forallb (fun ab => str_eqb (fst ab) (snd ab)) (combine full base) then Some [] else None)
  else match fuel, full with
       | S f, x :: r => option_map (cons x) (is_suffix_stack base r f)
       | _, _ => None
       end.

(* [within d p]: p's components are d's components followed by plain names *)
Definition within (d p : str) : bool :=
  Bool.eqb (is_abs d) (is_abs p) &&
  match is_suffix_stack (norm_stack d) (norm_stack p) (length (norm_stack p)) with
  | Some segs => forallb plain segs
  | None => false
  end.

Definition spec_lookup (dirs : list str) (o : outcome) : bool :=
  match o with
  | Found f => existsb (fun d => within d f) dirs
  | _ => true
  end.
