(* Model/PyLine.v -- where a fault is reported: the position of a construct (line = 1 + number
   of LF before it, column = distance from the last LF), and the line arithmetic for faults in
   embedded Python (pyparser._adjust_lineno, ast.PythonCode's leading-newline count,
   ast.PythonFragment's -1 for elif/else/except).  CPython's verdict (the line of the fault
   within the code it is given) is an oracle.  Definitions only. *)
From MakoV Require Import Lib.Str Model.Lexer.
Open Scope N_scope.

(* ---- the position a construct begins at, defined on the text before it -------------------- *)
Definition line_of_prefix (pre : str) : N := 1 + countN LF pre.
Definition colbase_of_prefix (pre : str) : N := last_lf_base 0 0 pre.
Definition col_of_prefix (pre : str) : N := N.of_nat (length pre) - colbase_of_prefix pre + 1.

(* ---- embedded Python --------------------------------------------------------------------------- *)
(* pyparser.parse(code, lineno_offset, lineno=L): reported = L + offset + e - 1, where e is the line
   CPython names within the code; offsets are small integers, possibly -1: kept as (plus, minus) *)
Definition adjust_lineno (construct_line plus minus exc_line : N) : N :=
  construct_line + plus + exc_line - 1 - minus.

(* ast.PythonCode: leading whitespace is stripped, the newlines in it are added to the offset *)
Fixpoint leading_ws (s : str) : str :=
  match s with
  | c :: r => if Gen.Unicode.is_strip_space c then c :: leading_ws r else []
  | [] => []
  end.
Definition python_code_line (construct_line plus minus : N) (code : str) (exc_line : N) : N :=
  adjust_lineno construct_line (plus + countN LF (leading_ws code)) minus exc_line.

(* ast.PythonFragment: a line is put before elif/else/except *)
Definition fragment_prepends (kw : str) : bool :=
  str_eqb kw (s2l "elif") || str_eqb kw (s2l "else") || str_eqb kw (s2l "except").
Definition fragment_line (construct_line : N) (kw : str) (exc_line : N) : N :=
  adjust_lineno construct_line 0 (if fragment_prepends kw then 1 else 0) exc_line.
