(* Model/Core.v -- what rendering does to the three pieces of render state that defs, buffering,
   captures and calls with content share: the buffer stack of Context (_push_buffer / _pop_buffer /
   _pop_buffer_and_writer / writer), the caller stack (CallerStack._push_frame / _pop_frame,
   nextcaller) and the writer each generated function binds on entry -- as a big-step machine over
   the code codegen.py emits for each construct (write_render_callable, write_def_finish,
   visitCallTag, runtime.capture).  Definitions only. *)
From MakoV Require Import Lib.Str.
Open Scope N_scope.

Inductive node :=
| NText (s : str)
| NProbe                                  (* an expression that observes the render state and writes nothing *)
| NRaise                                  (* an expression that raises *)
| NReturn                                 (* return STOP_RENDERING in a code block *)
| NCall (d : nat)                         (* dollar-brace d() : the def called by name *)
| NCapture (d : nat)                      (* dollar-brace capture(d) *)
| NCallContent (d : nat) (body : list node)    (* the call tag with content: d may ask for caller.body() *)
| NCallerBody                             (* dollar-brace caller.body() *)
| NTry (body handler : list node).        (* % try / % except *)

Record def := { d_body : list node; d_buffered : bool; d_filtered : bool }.

(* the closure handed over as caller: the body of the call tag, and the caller of the function the
   call tag is written in (ccall's argument) *)
Inductive cref := CRef (body : list node) (outer : option cref).

Record state := {
  bufs : list str;                 (* Context._buffer_stack, top first *)
  callers : list (option cref);    (* context.caller_stack, top first *)
  nextcaller : option cref
}.

Inductive outcome := ONormal | ORaised | OReturn | OFuel.

(* what a probe sees: depth of the buffer stack, depth of the caller stack, is nextcaller set,
   does the top frame have a caller *)
Definition obs := (nat * nat * bool * bool)%type.
Definition observe (s : state) : obs :=
  (length (bufs s), length (callers s),
   match nextcaller s with Some _ => true | None => false end,
   match callers s with Some _ :: _ => true | _ => false end).

(* ---- the runtime's operations ------------------------------------------------------------------- *)
Definition push_buffer (s : state) : state := {| bufs := [] :: bufs s; callers := callers s; nextcaller := nextcaller s |}.
Definition pop_buffer (s : state) : str * state :=
  match bufs s with
  | b :: r => (b, {| bufs := r; callers := callers s; nextcaller := nextcaller s |})
  | [] => ([], s)
  end.
(* CallerStack._push_frame: the frame is nextcaller, which is then cleared *)
Definition push_frame (s : state) : option cref * state :=
  (nextcaller s, {| bufs := bufs s; callers := nextcaller s :: callers s; nextcaller := None |}).
(* CallerStack._pop_frame: nextcaller becomes the popped frame *)
Definition pop_frame (s : state) : state :=
  match callers s with
  | f :: r => {| bufs := bufs s; callers := r; nextcaller := f |}
  | [] => s
  end.
Definition set_next (s : state) (c : option cref) : state := {| bufs := bufs s; callers := callers s; nextcaller := c |}.

(* a writer is bound to the buffer that is on top when it is obtained: its position from the bottom *)
Definition writer_of (s : state) : nat := length (bufs s).
Fixpoint write_at (l : list str) (pos_from_top : nat) (t : str) : list str :=
  match l, pos_from_top with
  | b :: r, O => (b ++ t) :: r
  | b :: r, S k => b :: write_at r k t
  | [], _ => []
  end.
Definition write (s : state) (w : nat) (t : str) : state :=
  {| bufs := write_at (bufs s) (length (bufs s) - w) t; callers := callers s; nextcaller := nextcaller s |}.

(* the filter of a filtered def: any function on strings will do for what is proved; the harness
   uses one that brackets its argument *)
Definition the_filter (t : str) : str := [91] ++ t ++ [93].

Definition result := (state * outcome * list obs * str)%type.   (* ..., the value the construct returns *)

Section Exec.
Variable defs : list def.

(* statements in sequence under one writer and one caller *)
Fixpoint run_nodes (ex : nat -> option cref -> node -> state -> state * outcome * list obs)
                   (w : nat) (me : option cref) (l : list node) (s : state) : state * outcome * list obs :=
  match l with
  | [] => (s, ONormal, [])
  | n :: r =>
      let '(s1, o1, t1) := ex w me n s in
      match o1 with
      | ONormal => let '(s2, o2, t2) := run_nodes ex w me r s1 in (s2, o2, t1 ++ t2)
      | _ => (s1, o1, t1)
      end
  end.

(* render_<def>(context): push_frame / try / [push_buffer] / writer / body / finally / pops *)
Definition call_def (ex : nat -> option cref -> node -> state -> state * outcome * list obs)
                    (d : def) (s : state) : state * outcome * list obs * str :=
  let '(frame, s1) := push_frame s in
  let s2 := if d_buffered d || d_filtered d then push_buffer s1 else s1 in
  let w := writer_of s2 in
  let '(s3, o3, t3) := run_nodes ex w frame (d_body d) s2 in
  (* finally *)
  if d_buffered d then
    let '(buf, s4) := pop_buffer s3 in
    let s5 := pop_frame s4 in
    match o3 with
    | ONormal => (s5, ONormal, t3, if d_filtered d then the_filter buf else buf)
    | OReturn => (s5, ONormal, t3, [])        (* the early return skips the statement that returns the buffer *)
    | _ => (s5, o3, t3, [])
    end
  else if d_filtered d then
    let '(buf, s4) := pop_buffer s3 in
    let s5 := pop_frame s4 in
    match o3 with
    | ONormal => (write s5 (writer_of s5) (the_filter buf), ONormal, t3, [])   (* the writer after the pop *)
    | OReturn => (s5, ONormal, t3, [])
    | _ => (s5, o3, t3, [])
    end
  else
    let s5 := pop_frame s3 in
    match o3 with
    | ONormal | OReturn => (s5, ONormal, t3, [])
    | _ => (s5, o3, t3, [])
    end.

Fixpoint exec (fuel : nat) (w : nat) (me : option cref) (n : node) (s : state) : state * outcome * list obs :=
  match fuel with
  | O => (s, OFuel, [])
  | S f =>
      match n with
      | NText t => (write s w t, ONormal, [])
      | NProbe => (s, ONormal, [observe s])
      | NRaise => (s, ORaised, [])
      | NReturn => (s, OReturn, [])
      | NCall d =>
          match nth_error defs d with
          | None => (s, ORaised, [])
          | Some df =>
              let '(s1, o1, t1, v) := call_def (exec f) df s in
              match o1 with
              | ONormal => (write s1 w v, ONormal, t1)
              | _ => (s1, o1, t1)
              end
          end
      | NCapture d =>
          match nth_error defs d with
          | None => (s, ORaised, [])
          | Some df =>
              (* runtime.capture: push_buffer / try: callable() / finally: pop_buffer; the value the callable returns is dropped *)
              let '(s1, o1, t1, _) := call_def (exec f) df (push_buffer s) in
              let '(buf, s2) := pop_buffer s1 in
              match o1 with
              | ONormal => (write s2 w buf, ONormal, t1)
              | _ => (s2, o1, t1)
              end
          end
      | NCallContent d body =>
          match nth_error defs d with
          | None => (s, ORaised, [])
          | Some df =>
              (* saved = nextcaller / nextcaller = Namespace(caller, callables=ccall(__M_caller)) / try: writer(d()) /
                 finally: nextcaller = saved   (fix 98e6214: the slot is put back, not cleared) *)
              let '(s1, o1, t1, v) := call_def (exec f) df (set_next s (Some (CRef body me))) in
              match o1 with
              | ONormal => (set_next (write s1 w v) (nextcaller s), ONormal, t1)
              | _ => (set_next s1 (nextcaller s), o1, t1)
              end
          end
      | NCallerBody =>
          (* what caller means here: in a def, the frame the def pushed (the stack's top while the def runs);
             in the body of a call tag, the argument of ccall -- the caller of the function the tag is written in *)
          match me with
          | Some (CRef body outer) =>
              (* body(): its own writer is the buffer on top now; its caller is the enclosing function's *)
              let '(s1, o1, t1) := run_nodes (exec f) (writer_of s) outer body s in
              match o1 with
              | ONormal | OReturn => (s1, ONormal, t1)        (* body returns the empty string, which is then written *)
              | _ => (s1, o1, t1)
              end
          | _ => (s, ORaised, [])
          end
      | NTry b h =>
          let '(s1, o1, t1) := run_nodes (exec f) w me b s in
          match o1 with
          | ORaised => let '(s2, o2, t2) := run_nodes (exec f) w me h s1 in (s2, o2, t1 ++ t2)
          | _ => (s1, o1, t1)
          end
      end
  end.
End Exec.

Definition core_fuel : nat := 60.
Definition state0 : state := {| bufs := [[]]; callers := []; nextcaller := None |}.

(* render_body: push_frame / try / writer / body / finally: pop_frame; the output is the bottom buffer *)
Definition render (defs : list def) (body : list node) : state * outcome * list obs :=
  let '(frame, s1) := push_frame state0 in
  let '(s2, o2, t2) := run_nodes (exec defs core_fuel) (writer_of s1) frame body s1 in
  (pop_frame s2, match o2 with OReturn => ONormal | o => o end, t2).
