(* Model/Lexer.v -- Lexer.parse (mako/lexer.py:62-82,229-492): the cursor with the empty-match
   +1 advance, the matcher cascade in the order read from the source (Gen/LexerOrder.v) and one
   split-style scanner per regular expression.  Every scanner returns the slice it consumed
   and the rest; the lexer's output is a list of events each carrying its exact source slice,
   so ''nothing dropped, nothing duplicated'' is a statement about concatenating slices.
   Python validity of embedded code and tag/attribute legality are decided by the node
   constructors, which are an oracle outside this model (py_syntax_oracle).
   Definitions only. *)
From MakoV Require Import Lib.Str Gen.Unicode Gen.LexerOrder Gen.Parsetree.
Open Scope N_scope.

(* ---- characters --------------------------------------------------------------------- *)
Definition cLT : N := 60.   Definition cGT : N := 62.   Definition cPCT : N := 37.
Definition cDOLLAR : N := 36. Definition cLBRACE : N := 123. Definition cRBRACE : N := 125.
Definition cHASH : N := 35. Definition cBSLASH : N := 92. Definition cDQ : N := 34. Definition cSQ : N := 39.
Definition cPIPE : N := 124. Definition cSLASH : N := 47. Definition cEQ : N := 61. Definition cCOMMA : N := 44.
Definition cEXCL : N := 33. Definition cLPAR : N := 40. Definition cRPAR : N := 41.
Definition cLBRK : N := 91. Definition cRBRK : N := 93. Definition cDOT : N := 46. Definition cCOLON : N := 58.

Definition is_blank (c : N) : bool := (c =? 32) || (c =? 9).            (* [\t ] *)

(* ---- generic split-style combinators --------------------------------------------------- *)
Fixpoint span (p : N -> bool) (s : str) : str * str :=
  match s with
  | c :: r => if p c then let (a, b) := span p r in (c :: a, b) else ([], s)
  | [] => ([], [])
  end.

(* shortest prefix before the first occurrence of [lit]: Some (before, from_lit_on) *)
Fixpoint find_lit (lit : str) (s : str) : option (str * str) :=
  if starts_with lit s then Some ([], s)
  else match s with
       | [] => None
       | c :: r => match find_lit lit r with Some (a, b) => Some (c :: a, b) | None => None end
       end.

Definition drop_lit (lit s : str) : option str := strip_prefix lit s.

(* optional CR then LF:  \r?\n  -> Some (terminator, rest) *)
Definition eat_newline (s : str) : option (str * str) :=
  match s with
  | c :: r =>
      if c =? LF then Some ([LF], r)
      else if c =? CR then match r with d :: r2 => if d =? LF then Some ([CR; LF], r2) else None | [] => None end
      else None
  | [] => None
  end.

(* ---- parse_until_text ------------------------------------------------------------------- *)

(* ''#.*\n'' *)
Definition scan_hash_comment (s : str) : option (str * str) :=
  match s with
  | c :: r =>
      if c =? cHASH then
        let (run, rest) := span (fun x => negb (x =? LF)) r in
        match rest with
        | l :: rest2 => Some (c :: run ++ [l], rest2)       (* l = LF *)
        | [] => None
        end
      else None
  | [] => None
  end.

(* the body of a string literal after its opening delimiter: up to and including the first
   closing delimiter that is not the second character of a backslash pair *)
Fixpoint scan_str_body (delim : str) (s : str) : option (str * str) :=
  match strip_prefix delim s with
  | Some rest => Some (delim, rest)
  | None =>
      match s with
      | [] => None
      | c :: r1 =>
          if c =? cBSLASH then
            match r1 with
            | x :: r2 => match scan_str_body delim r2 with Some (a, b) => Some (c :: x :: a, b) | None => None end
            | [] => None
            end
          else match scan_str_body delim r1 with Some (a, b) => Some (c :: a, b) | None => None end
      end
  end.

Definition try_delim (delim : str) (s : str) : option (str * str) :=
  match strip_prefix delim s with
  | Some r => match scan_str_body delim r with Some (a, b) => Some (delim ++ a, b) | None => None end
  | None => None
  end.

(* (\''\''\''|\'\'\'|\''|\')[^\\]*?(\\.[^\\]*?)*\1  with re.S: alternatives in order *)
Definition scan_string (s : str) : option (str * str) :=
  match try_delim [cDQ; cDQ; cDQ] s with
  | Some x => Some x
  | None =>
      match try_delim [cSQ; cSQ; cSQ] s with
      | Some x => Some x
      | None =>
          match try_delim [cDQ] s with
          | Some x => Some x
          | None => try_delim [cSQ] s
          end
      end
  end.

Fixpoint first_stop (stops : list str) (s : str) : option (str * str) :=
  match stops with
  | [] => None
  | t :: ts => match strip_prefix t s with Some r => Some (t, r) | None => first_stop ts s end
  end.

(* shortest run up to the next quote, hash or stop (which must exist) *)
Fixpoint scan_run (stops : list str) (s : str) : option (str * str) :=
  match s with
  | [] => None
  | c :: r =>
      if (c =? cDQ) || (c =? cSQ) || (c =? cHASH) || (match first_stop stops s with Some _ => true | None => false end)
      then Some ([], s)
      else match scan_run stops r with Some (a, b) => Some (c :: a, b) | None => None end
  end.

Record levels := { l_brace : N * N; l_paren : N * N; l_brack : N * N }.    (* (opened, closed) *)
Definition lv0 : levels := {| l_brace := (0, 0); l_paren := (0, 0); l_brack := (0, 0) |}.
Definition bump (lv : levels) (s : str) : levels :=
  {| l_brace := (fst (l_brace lv) + countN cLBRACE s, snd (l_brace lv) + countN cRBRACE s);
     l_paren := (fst (l_paren lv) + countN cLPAR s, snd (l_paren lv) + countN cRPAR s);
     l_brack := (fst (l_brack lv) + countN cLBRK s, snd (l_brack lv) + countN cRBRK s) |}.
Definition nested (lv : levels) : bool :=
  (snd (l_brace lv) <? fst (l_brace lv)) || (snd (l_paren lv) <? fst (l_paren lv)) || (snd (l_brack lv) <? fst (l_brack lv)).

(* the loop of parse_until_text; [acc] is the text consumed so far (in order).
   Some (text, stop, rest) with text ++ stop ++ rest = the input handed to the first call *)
Fixpoint put_loop (fuel : nat) (nest : bool) (stops : list str) (acc : str) (s : str) (lv : levels)
  : option (str * str * str) :=
  match fuel with
  | O => None
  | S f =>
      match scan_hash_comment s with
      | Some (c, r) => put_loop f nest stops (acc ++ c) r lv
      | None =>
          match scan_string s with
          | Some (c, r) => put_loop f nest stops (acc ++ c) r lv
          | None =>
              match first_stop stops s with
              | Some (t, r) =>
                  if nest && nested lv then put_loop f nest stops (acc ++ t) r (bump lv t)
                  else Some (acc, t, r)
              | None =>
                  match scan_run stops s with
                  | Some ([], _) =>
                      (* empty match: the cursor advances by one, the character joins the text uncounted *)
                      match s with
                      | c :: r => put_loop f nest stops (acc ++ [c]) r lv
                      | [] => None
                      end
                  | Some (run, r) => put_loop f nest stops (acc ++ run) r (bump lv run)
                  | None => None
                  end
              end
          end
      end
  end.

Definition parse_until (nest : bool) (stops : list str) (s : str) : option (str * str * str) :=
  put_loop (S (length s)) nest stops [] s lv0.

(* ---- events ------------------------------------------------------------------------------- *)
Inductive ekind :=
| KText (t : str)
| KExpr (text esc : str)
| KControl (kw : str) (isend : bool) (text : str)
| KComment (t : str)
| KTag (kw : str) (attrs : list (str * str)) (selfclose : bool)
| KTagEnd (kw : str)
| KCode (text : str) (ismodule : bool)
| KDropNL                 (* backslash-newline consumed by match_text *)
| KCoding.                (* the magic coding comment at offset 0 *)

Record event := { ev_kind : ekind; ev_src : str; ev_line : N; ev_pos : N }.

Inductive lexerr :=
| EUnterminated | EInvalidControl | ENoStartKw | EKwMismatch | EBadTernary
| EUnclosedTag | EUnterminatedControl | ECloseNoOpen | ECloseMismatch | EOutOfFuel.

Inductive outcome := LexOk | LexErr (e : lexerr) (line pos : N).

(* ---- cursor ---------------------------------------------------------------------------------- *)
Record cursor := {
  c_rest : str;
  c_off : N;                 (* match_position *)
  c_line : N;                (* lineno *)
  c_colbase : N;             (* offset of the character after the last LF before c_off *)
  c_prev : option N          (* the character before c_off *)
}.

Definition cur_pos (c : cursor) : N := c_off c - c_colbase c + 1.

Fixpoint last_lf_base (off : N) (base : N) (s : str) : N :=
  match s with
  | [] => base
  | x :: r => last_lf_base (off + 1) (if x =? LF then off + 1 else base) r
  end.

Definition last_char (s : str) (d : option N) : option N :=
  match rev s with x :: _ => Some x | [] => d end.

(* the cursor after consuming [slice] (rest is what follows it) *)
Definition advance (c : cursor) (slice rest : str) : cursor :=
  {| c_rest := rest;
     c_off := c_off c + N.of_nat (length slice);
     c_line := c_line c + countN LF slice;
     c_colbase := last_lf_base (c_off c) (c_colbase c) slice;
     c_prev := last_char slice (c_prev c) |}.

Definition at_bol (c : cursor) : bool :=
  match c_prev c with None => true | Some x => x =? LF end.

(* ---- the matchers ---------------------------------------------------------------------------- *)

(* control line / ## comment: the scan of group 2, remembering the last continuation *)
Fixpoint scan_ctl_items (s : str) (acc : str) (lastc : option (str * str * str)) (pend : nat)
  : str * str * option (str * str * str) :=
  (* returns (text, rest, last continuation = (text up to and incl. the backslash, its newline, rest after it));
     [pend] = characters of a continuation newline still to be taken *)
  match s with
  | [] => (acc, [], lastc)
  | c :: r =>
      match pend with
      | S k => scan_ctl_items r (acc ++ [c]) lastc k
      | O =>
          if c =? cBSLASH then
            match eat_newline r with
            | Some (nl, r2) => scan_ctl_items r (acc ++ [c]) (Some (acc ++ [c], nl, r2)) (length nl)
            | None => scan_ctl_items r (acc ++ [c]) lastc O
            end
          else if (c =? CR) || (c =? LF) then (acc, s, lastc)
          else scan_ctl_items r (acc ++ [c]) lastc O
      end
  end.

Inductive ctl := CtlPercent | CtlHash.

(* Some (operator, leading (indent+operator+blanks), text, terminator, rest) *)
Definition scan_control_line (s : str) : option (ctl * str * str * str * str) :=
  let (ind, r0) := span is_blank s in
  let op :=
    match r0 with
    | a :: r1 =>
        if a =? cPCT then
          match r1 with
          | b :: _ => if b =? cPCT then None else Some (CtlPercent, [a], r1)
          | [] => Some (CtlPercent, [a], r1)
          end
        else if a =? cHASH then
          match r1 with
          | b :: r2 => if b =? cHASH then Some (CtlHash, [a; b], r2) else None
          | [] => None
          end
        else None
    | [] => None
    end in
  match op with
  | None => None
  | Some (o, optxt, r1) =>
      let (bl, r2) := span is_blank r1 in
      let '(text, rest, lastc) := scan_ctl_items r2 [] None O in
      let lead := ind ++ optxt ++ bl in
      match rest with
      | [] => Some (o, lead, text, [], [])
      | _ =>
          match eat_newline rest with
          | Some (nl, rest2) => Some (o, lead, text, nl, rest2)
          | None =>
              match lastc with
              | Some (t, nl, rest2) => Some (o, lead, t, nl, rest2)
              | None => None
              end
          end
      end
  end.

(* optional end, a word, the rest -- on the control text: Some (isend, keyword) *)
Definition ctl_keyword (text : str) : option (bool * str) :=
  let plain := let (w, _) := span is_word text in match w with [] => None | _ => Some (false, w) end in
  match strip_prefix (s2l "end") text with
  | Some r =>
      let (w, _) := span is_word r in
      match w with
      | [] => plain
      | _ => Some (true, w)
      end
  | None => plain
  end.

(* the doc comment: shortest body up to the closing doc tag *)
Definition scan_doc (s : str) : option (str * str * str) :=      (* body, consumed, rest *)
  match strip_prefix (s2l "<%doc>") s with
  | Some r =>
      match find_lit (s2l "</%doc>") r with
      | Some (body, r2) =>
          match strip_prefix (s2l "</%doc>") r2 with
          | Some rest => Some (body, s2l "<%doc>" ++ body ++ s2l "</%doc>", rest)
          | None => None
          end
      | None => None
      end
  | None => None
  end.

(* ---- tag start ------------------------------------------------------------------------------- *)
Definition is_kwchar (c : N) : bool := is_word c || (c =? cDOT) || (c =? cCOLON).

Definition scan_quoted (q : N) (s : str) : option (str * str) :=   (* s starts after the opening quote *)
  let (body, r) := span (fun x => negb (x =? q)) s in
  match r with
  | x :: rest => Some (q :: body ++ [x], rest)       (* x is the closing quote *)
  | [] => None
  end.

(* items of the attribute group; [aftereq]: the previous item was '=' or ',' (its trailing
   whitespace already consumed; [wsafter] says whether that whitespace was non-empty).
   Returns (attr string, rest) where rest starts at the closing  \s* /? >  *)
Fixpoint scan_attr_items (fuel : nat) (aftereq wsafter : bool) (acc : str) (s : str) : str * str :=
  match fuel with
  | O => (acc, s)
  | S f =>
      let (ws, r) := span is_space s in
      match r with
      | [] => (acc, s)
      | c :: r1 =>
          if (c =? cEQ) || (c =? cCOMMA) then
            let (ws2, r2) := span is_space r1 in
            scan_attr_items f true (negb (match ws2 with [] => true | _ => false end)) (acc ++ ws ++ c :: ws2) r2
          else if is_word c then
            (* \s+\w+ : needs whitespace before it (possibly the one consumed after '=' / ',') *)
            if negb (match ws with [] => true | _ => false end) || (aftereq && wsafter) then
              let (w, r2) := span is_word r in
              scan_attr_items f false false (acc ++ ws ++ w) r2
            else (acc, s)
          else if (c =? cDQ) || (c =? cSQ) then
            (* a quoted string starts exactly where the previous item ended *)
            if match ws with [] => true | _ => false end then
              match scan_quoted c r1 with
              | Some (q, r2) => scan_attr_items f false false (acc ++ q) r2
              | None => (acc, s)
              end
            else (acc, s)
          else (acc, s)
      end
  end.

(* re.findall(r''\s*(\w+)\s*=\s*(?:'([^']*_)'|\"([^\"]*_)\")", attr) *)
Definition attr_at (s : str) : option (str * str * str) :=       (* key, value, rest *)
  let (_, r0) := span is_space s in
  let (k, r1) := span is_word r0 in
  match k with
  | [] => None
  | _ =>
      let (_, r2) := span is_space r1 in
      match r2 with
      | e :: r3 =>
          if e =? cEQ then
            let (_, r4) := span is_space r3 in
            match r4 with
            | q :: r5 =>
                if (q =? cSQ) || (q =? cDQ) then
                  let (v, r6) := span (fun x => negb (x =? q)) r5 in
                  match r6 with
                  | _ :: rest => Some (k, v, rest)
                  | [] => None
                  end
                else None
            | [] => None
            end
          else None
      | [] => None
      end
  end.

Fixpoint crlf_to_lf (s : str) : str :=
  match s with
  | a :: r => match r with
              | b :: r2 => if (a =? CR) && (b =? LF) then LF :: crlf_to_lf r2 else a :: crlf_to_lf r
              | [] => [a]
              end
  | [] => []
  end.

Fixpoint find_attrs (fuel : nat) (s : str) : list (str * str) :=
  match fuel with
  | O => []
  | S f =>
      match s with
      | [] => []
      | _ :: r =>
          match attr_at s with
          | Some (k, v, rest) => (k, crlf_to_lf v) :: find_attrs f rest
          | None => find_attrs f r
          end
      end
  end.

(* Some (keyword, attrs, selfclose, consumed, rest) *)
Definition scan_tag_start (s : str) : option (str * list (str * str) * bool * str * str) :=
  match strip_prefix [cLT; cPCT] s with
  | None => None
  | Some r0 =>
      let (kw, r1) := span is_kwchar r0 in
      match kw with
      | [] => None
      | _ =>
          let (attr, r2) := scan_attr_items (S (length r1)) false false [] r1 in
          let (ws, r3) := span is_space r2 in
          match r3 with
          | a :: r4 =>
              if a =? cGT then Some (kw, find_attrs (S (length attr)) attr, false, [cLT; cPCT] ++ kw ++ attr ++ ws ++ [a], r4)
              else if a =? cSLASH then
                match r4 with
                | b :: r5 => if b =? cGT then Some (kw, find_attrs (S (length attr)) attr, true, [cLT; cPCT] ++ kw ++ attr ++ ws ++ [a; b], r5) else None
                | [] => None
                end
              else None
          | [] => None
          end
      end
  end.

(* the closing tag: shortest name of non-blank characters followed by blanks and > : Some (name, consumed, rest) *)
Fixpoint scan_tag_end_name (s : str) (acc : str) : option (str * str * str) :=   (* name, tail consumed after name, rest *)
  match s with
  | [] => None
  | c :: r =>
      let try_close :=
        match acc with
        | [] => None
        | _ => let (bl, r2) := span is_blank s in
               match r2 with
               | g :: rest => if g =? cGT then Some (acc, bl ++ [g], rest) else None
               | [] => None
               end
        end in
      match try_close with
      | Some x => Some x
      | None => if is_blank c then None else scan_tag_end_name r (acc ++ [c])
      end
  end.

Definition scan_tag_end (s : str) : option (str * str * str) :=
  match strip_prefix [cLT; cSLASH; cPCT] s with
  | None => None
  | Some r0 =>
      let (bl, r1) := span is_blank r0 in
      match scan_tag_end_name r1 [] with
      | Some (name, tail, rest) => Some (name, [cLT; cSLASH; cPCT] ++ bl ++ name ++ tail, rest)
      | None => None
      end
  end.

(* at line start: whitespace, two percent signs, more percent signs : Some (ws, extra percents, consumed, rest) *)
Definition scan_percent (s : str) : option (str * str * str * str) :=
  let (ws, r) := span is_space s in
  match strip_prefix [cPCT; cPCT] r with
  | Some r2 => let (ps, rest) := span (fun x => x =? cPCT) r2 in Some (ws, ps, ws ++ [cPCT; cPCT] ++ ps, rest)
  | None => None
  end.

(* match_text: shortest run ending at one of the five stop conditions.
   Returns (text, dropped backslash-newline, rest) *)
Definition text_stop_here (prev : option N) (s : str) : bool :=
  (match prev with
   | Some p => (p =? LF) &&
       (let (_, r) := span is_blank s in
        match r with
        | a :: r1 => (a =? cPCT) || ((a =? cHASH) && match r1 with b :: _ => b =? cHASH | [] => false end)
        | [] => false
        end)
   | None => false
   end)
  || starts_with [cDOLLAR; cLBRACE] s
  || starts_with [cLT; cPCT] s || starts_with [cLT; cSLASH; cPCT] s.

Fixpoint scan_text (prev : option N) (s : str) : str * str * str :=
  if text_stop_here prev s then ([], [], s)
  else match s with
       | [] => ([], [], [])
       | c :: r =>
           let cont := if c =? cBSLASH then eat_newline r else None in
           match cont with
           | Some (nl, r2) => ([], c :: nl, r2)
           | None => let '(t, d, rest) := scan_text (Some c) r in (c :: t, d, rest)
           end
       end.

(* the magic coding comment, only at offset 0:  #.*coding[:=]\s*([-\w.]+).*\r?\n
   (the first line must contain ''coding'' + '':'' or ''='', optional whitespace not crossing the
   line, a name; it is consumed through its LF) *)
Definition is_namechar (c : N) : bool := is_word c || (c =? 45) || (c =? cDOT).
Fixpoint has_coding (s : str) : bool :=
  match s with
  | [] => false
  | _ :: r =>
      (match strip_prefix (s2l "coding") s with
       | Some (e :: r1) =>
           ((e =? cCOLON) || (e =? cEQ)) &&
           (let (_, r2) := span (fun x => is_space x && negb (x =? LF)) r1 in
            match r2 with n :: _ => is_namechar n | [] => false end)
       | _ => false
       end) || has_coding r
  end.
Definition scan_coding (s : str) : option (str * str) :=
  match s with
  | c :: r =>
      if c =? cHASH then
        let (line, rest) := span (fun x => negb (x =? LF)) r in
        match rest with
        | l :: rest2 => if has_coding line then Some (c :: line ++ [l], rest2) else None
        | [] => None
        end
      else None
  | [] => None
  end.

(* ---- the lexer ------------------------------------------------------------------------------- *)
Record lstate := {
  cur : cursor;
  tags : list str;                               (* open tags, innermost first *)
  ctls : list (str * N * N);                     (* open control keywords with their position *)
  evs : list event                               (* reversed *)
}.

Definition mk_event (c : cursor) (k : ekind) (src : str) : event :=
  {| ev_kind := k; ev_src := src; ev_line := c_line c; ev_pos := cur_pos c |}.

Definition push_ev (st : lstate) (e : event) (c' : cursor) : lstate :=
  {| cur := c'; tags := tags st; ctls := ctls st; evs := e :: evs st |}.

Definition is_primary (kw : str) : bool := existsb (str_eqb kw) primary_keywords.
Definition is_ternary (open kw : str) : bool :=
  match assocS open ternary_table with Some l => existsb (str_eqb kw) l | None => false end.

Inductive stepres :=
| Continue (st : lstate)
| Stop (st : lstate) (e : lexerr) (line pos : N)
| NoMatch.

Definition strip_ws (s : str) : str :=
  let fix l (x : str) := match x with c :: r => if is_strip_space c then l r else x | [] => [] end in
  rev (l (rev (l s))).

(* match_expression *)
Definition m_expression (st : lstate) : stepres :=
  let c := cur st in
  match strip_prefix [cDOLLAR; cLBRACE] (c_rest c) with
  | None => NoMatch
  | Some r0 =>
      match parse_until true [[cPIPE]; [cRBRACE]] r0 with
      | None => Stop st EUnterminated (c_line c) (cur_pos c)
      | Some (text, stop, r1) =>
          if str_eqb stop [cPIPE] then
            match parse_until true [[cRBRACE]] r1 with
            | None =>
                (* the position of the last match: the ''|'' *)
                let cp := advance c ([cDOLLAR; cLBRACE] ++ text) (stop ++ r1) in
                Stop st EUnterminated (c_line cp) (cur_pos cp)
            | Some (esc, stop2, r2) =>
                let src := [cDOLLAR; cLBRACE] ++ text ++ stop ++ esc ++ stop2 in
                Continue (push_ev st (mk_event c (KExpr (crlf_to_lf text) (strip_ws esc)) src) (advance c src r2))
            end
          else
            let src := [cDOLLAR; cLBRACE] ++ text ++ stop in
            Continue (push_ev st (mk_event c (KExpr (crlf_to_lf text) []) src) (advance c src r1))
      end
  end.

(* match_control_line *)
Definition m_control_line (st : lstate) : stepres :=
  let c := cur st in
  if negb (at_bol c) then NoMatch else
  match scan_control_line (c_rest c) with
  | None => NoMatch
  | Some (op, lead, text, nl, rest) =>
      let src := lead ++ text ++ nl in
      let c' := advance c src rest in
      match op with
      | CtlHash => Continue (push_ev st (mk_event c (KComment text) src) c')
      | CtlPercent =>
          match ctl_keyword text with
          | None => Stop st EInvalidControl (c_line c) (cur_pos c)
          | Some (isend, kw) =>
              let ev := mk_event c (KControl kw isend text) src in
              if isend then
                match ctls st with
                | [] => Stop st ENoStartKw (c_line c) (cur_pos c)
                | (top, _, _) :: rest_ctls =>
                    if str_eqb top kw then
                      Continue {| cur := c'; tags := tags st; ctls := rest_ctls; evs := ev :: evs st |}
                    else Stop st EKwMismatch (c_line c) (cur_pos c)
                end
              else if is_primary kw then
                Continue {| cur := c'; tags := tags st; ctls := (kw, c_line c, cur_pos c) :: ctls st; evs := ev :: evs st |}
              else
                match ctls st with
                | (top, _, _) :: _ =>
                    if is_ternary top kw then Continue (push_ev st ev c')
                    else Stop (push_ev st ev c') EBadTernary (c_line c) (cur_pos c)
                | [] => Continue (push_ev st ev c')
                end
          end
      end
  end.

(* match_comment *)
Definition m_comment (st : lstate) : stepres :=
  let c := cur st in
  match scan_doc (c_rest c) with
  | Some (body, src, rest) => Continue (push_ev st (mk_event c (KComment body) src) (advance c src rest))
  | None => NoMatch
  end.

(* match_tag_end on a state; used by match_tag_start for <%text> too *)
Definition do_tag_end (st : lstate) : stepres :=
  let c := cur st in
  match scan_tag_end (c_rest c) with
  | None => NoMatch
  | Some (name, src, rest) =>
      let c' := advance c src rest in
      match tags st with
      | [] => Stop st ECloseNoOpen (c_line c) (cur_pos c)
      | top :: more =>
          if str_eqb top name then
            Continue {| cur := c'; tags := more; ctls := ctls st; evs := mk_event c (KTagEnd name) src :: evs st |}
          else Stop st ECloseMismatch (c_line c) (cur_pos c)
      end
  end.

Definition m_tag_start (st : lstate) : stepres :=
  let c := cur st in
  match scan_tag_start (c_rest c) with
  | None => NoMatch
  | Some (kw, attrs, selfclose, src, rest) =>
      let c1 := advance c src rest in
      let ev := mk_event c (KTag kw attrs selfclose) src in
      if selfclose then Continue (push_ev st ev c1)
      else
        let st1 := {| cur := c1; tags := kw :: tags st; ctls := ctls st; evs := ev :: evs st |} in
        if str_eqb kw (s2l "text") then
          match find_lit (s2l "</%text>") rest with
          | None => Stop st1 EUnclosedTag (c_line c) (cur_pos c)
          | Some (body, r2) =>
              match body with
              | [] =>
                  (* empty body: no Text node, the closing tag follows at once *)
                  match do_tag_end st1 with
                  | NoMatch => Continue st1
                  | other => other
                  end
              | _ =>
                  let c2 := advance c1 body r2 in
                  let st2 := push_ev st1 (mk_event c1 (KText body) body) c2 in
                  match do_tag_end st2 with
                  | NoMatch => Continue st2
                  | other => other
                  end
              end
          end
        else Continue st1
  end.

Definition m_tag_end (st : lstate) : stepres := do_tag_end st.

(* match_python_block *)
Definition m_python_block (st : lstate) : stepres :=
  let c := cur st in
  match strip_prefix [cLT; cPCT] (c_rest c) with
  | None => NoMatch
  | Some r0 =>
      let '(ismod, opening, r1) :=
        match r0 with
        | x :: r => if x =? cEXCL then (true, [cLT; cPCT; cEXCL], r) else (false, [cLT; cPCT], r0)
        | [] => (false, [cLT; cPCT], r0)
        end in
      match parse_until false [[cPCT; cGT]] r1 with
      | None => Stop st EUnterminated (c_line c) (cur_pos c)
      | Some (text, stop, r2) =>
          let src := opening ++ text ++ stop in
          Continue (push_ev st (mk_event c (KCode text ismod) src) (advance c src r2))
      end
  end.

(* match_percent *)
Definition m_percent (st : lstate) : stepres :=
  let c := cur st in
  if negb (at_bol c) then NoMatch else
  match scan_percent (c_rest c) with
  | Some (ws, ps, src, rest) =>
      Continue (push_ev st (mk_event c (KText (ws ++ [cPCT] ++ ps)) src) (advance c src rest))
  | None => NoMatch
  end.

(* match_text (always matches: the last alternative is end of input) *)
Definition m_text (st : lstate) : stepres :=
  let c := cur st in
  let '(t, d, rest) := scan_text (c_prev c) (c_rest c) in
  match t, d with
  | [], [] =>
      (* empty match: the cursor steps over one character, which is emitted as literal text *)
      match rest with
      | x :: r => Continue (push_ev st (mk_event c (KText [x]) [x]) (advance c [x] r))
      | [] => NoMatch        (* at end of input match_end has already fired *)
      end
  | [], _ => Continue (push_ev st (mk_event c KDropNL d) (advance c d rest))
  | _, [] => Continue (push_ev st (mk_event c (KText t) t) (advance c t rest))
  | _, _ =>
      let c1 := advance c t (d ++ rest) in
      Continue (push_ev (push_ev st (mk_event c (KText t) t) c1) (mk_event c1 KDropNL d) (advance c1 d rest))
  end.

Definition run_matcher (m : matcher) (st : lstate) : stepres :=
  match m with
  | MExpression => m_expression st
  | MControlLine => m_control_line st
  | MComment => m_comment st
  | MTagStart => m_tag_start st
  | MTagEnd => m_tag_end st
  | MPythonBlock => m_python_block st
  | MPercent => m_percent st
  | MText => m_text st
  end.

Fixpoint cascade (ms : list matcher) (st : lstate) : stepres :=
  match ms with
  | [] => NoMatch
  | m :: r => match run_matcher m st with NoMatch => cascade r st | x => x end
  end.

(* position reported by exception_kwargs at the end: that of the \Z match *)
Definition finish (st : lstate) : list event * outcome :=
  let c := cur st in
  match tags st with
  | _ :: _ => (rev (evs st), LexErr EUnclosedTag (c_line c) (cur_pos c))
  | [] =>
      match ctls st with
      | (_, l, p) :: _ => (rev (evs st), LexErr EUnterminatedControl l p)
      | [] => (rev (evs st), LexOk)
      end
  end.

Fixpoint lex_loop (fuel : nat) (st : lstate) : list event * outcome :=
  match fuel with
  | O => (rev (evs st), LexErr EOutOfFuel 0 0)
  | S f =>
      match c_rest (cur st) with
      | [] => finish st                              (* match_end *)
      | _ =>
          match cascade matcher_order st with
          | Continue st' => lex_loop f st'
          | Stop st' e l p => (rev (evs st'), LexErr e l p)
          | NoMatch => (rev (evs st), LexErr EOutOfFuel 0 0)
          end
      end
  end.

Definition lex_start (s : str) : lstate :=
  let c0 := {| c_rest := s; c_off := 0; c_line := 1; c_colbase := 0; c_prev := None |} in
  match scan_coding s with
  | Some (src, rest) =>
      {| cur := advance c0 src rest; tags := []; ctls := []; evs := [mk_event c0 KCoding src] |}
  | None => {| cur := c0; tags := []; ctls := []; evs := [] |}
  end.

Definition lex (s : str) : list event * outcome := lex_loop (S (S (length s))) (lex_start s).

(* ---- the property as decidable predicates (spec_C01) ----------------------------------------- *)

(* what each event contributes to the output *)
Definition emit (e : event) : str :=
  match ev_kind e with
  | KText t => t
  | _ => []
  end.

(* the slices of the events tile the source: nothing dropped, nothing duplicated *)
Definition tiles (s : str) (es : list event) : bool := str_eqb (flat_map ev_src es) s.

(* literal text is reproduced exactly: a text event emits its own slice; ''%%'' lines emit the
   slice with one ''%'' removed; continuation events and comments emit nothing *)
Definition remove_first_pct (s : str) : str :=
  let (a, b) := span (fun x => negb (x =? cPCT)) s in
  match b with _ :: r => a ++ r | [] => a end.

Definition emit_ok (e : event) : bool :=
  match ev_kind e with
  | KText t => str_eqb t (ev_src e) || str_eqb t (remove_first_pct (ev_src e))
  | _ => true
  end.
