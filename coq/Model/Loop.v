(* Model/Loop.v -- runtime.LoopStack / LoopContext (mako/runtime.py:241-341) and the code
   mangle_mako_loop / visitControlLine emit around a "% for" whose subtree reads loop
   (mako/codegen.py:824-832,1271-1291):
       loop = __M_loop._enter(iterable) / try: / for .. in loop: / finally: / loop = __M_loop._exit()
   as a machine over a small structured language of loops, try blocks and events.  Definitions only. *)
From Coq Require Import ZArith.
From MakoV Require Import Lib.Str.
Open Scope N_scope.

Record lctx := { l_index : N; l_len : N }.          (* a LoopContext over a sized iterable *)
Definition lstack := list lctx.                      (* top first *)

(* ---- the fields, as functions of the context ------------------------------------------------------ *)
Definition f_first (c : lctx) : bool := l_index c =? 0.
Definition f_last (c : lctx) : bool := Z.eqb (Z.of_N (l_index c)) (Z.of_N (l_len c) - 1).
Definition f_odd (c : lctx) : bool := negb (l_index c mod 2 =? 0).
Definition f_even (c : lctx) : bool := negb (f_odd c).
Definition f_reverse_index (c : lctx) : Z := (Z.of_N (l_len c) - Z.of_N (l_index c) - 1)%Z.
Definition f_cycle {A} (c : lctx) (vs : list A) : option A :=
  match vs with [] => None | _ => nth_error vs (N.to_nat (l_index c mod N.of_nat (length vs))) end.
Definition f_parent (s : lstack) : option lctx := match s with _ :: p :: _ => Some p | _ => None end.

(* ---- the stack -------------------------------------------------------------------------------------- *)
Definition enter (n : N) (s : lstack) : lstack := {| l_index := 0; l_len := n |} :: s.
Definition exit_ (s : lstack) : lstack := tl s.
Definition advance (s : lstack) : lstack :=
  match s with c :: r => {| l_index := l_index c + 1; l_len := l_len c |} :: r | [] => [] end.

(* ---- programs ----------------------------------------------------------------------------------------- *)
Inductive prog :=
| PObserve                                   (* the body reads loop.index, .first, ... and loop.parent *)
| PText                                      (* output that does not read loop *)
| PRaise                                     (* an exception *)
| PBreak
| PReturn                                    (* return STOP_RENDERING *)
| PFor (n : nat) (body : list prog)          (* % for over n items *)
| PForRaise (body : list prog)               (* % for whose iterable expression raises *)
| PTry (body handler : list prog).           (* % try / % except *)

Inductive outcome := ONormal | ORaised | OBreak | OReturn | OFuel.

(* an observation: the context on top, the depth of the stack, the parent's index *)
Definition obs := (lctx * nat * option N)%type.

Fixpoint reads_loop (fuel : nat) (p : prog) : bool :=
  match fuel with
  | O => false
  | S f =>
      match p with
      | PObserve => true
      | PFor _ body => existsb (reads_loop f) body
      | PForRaise body => existsb (reads_loop f) body
      | PTry b h => existsb (reads_loop f) b || existsb (reads_loop f) h
      | _ => false
      end
  end.

Definition result := (lstack * outcome * list obs)%type.

(* statements in sequence: the first that does not end normally ends the sequence *)
Fixpoint run_list (ex : prog -> lstack -> result) (l : list prog) (s : lstack) : result :=
  match l with
  | [] => (s, ONormal, [])
  | q :: r =>
      let '(s1, o1, t1) := ex q s in
      match o1 with
      | ONormal => let '(s2, o2, t2) := run_list ex r s1 in (s2, o2, t1 ++ t2)
      | _ => (s1, o1, t1)
      end
  end.

(* k more iterations; LoopContext.__iter__ adds one to index when the generator is resumed *)
Fixpoint iterate (ex : prog -> lstack -> result) (body : list prog) (k : nat) (s : lstack) (managed : bool) : result :=
  match k with
  | O => (s, ONormal, [])
  | S k' =>
      let '(s1, o1, t1) := run_list ex body s in
      match o1 with
      | ONormal => let '(s2, o2, t2) := iterate ex body k' (if managed then advance s1 else s1) managed in (s2, o2, t1 ++ t2)
      | OBreak => (s1, ONormal, t1)
      | _ => (s1, o1, t1)
      end
  end.

Section Exec.
Variable rl : prog -> bool.       (* LoopVariable's answer for a % for node *)

Fixpoint exec (fuel : nat) (p : prog) (s : lstack) : result :=
  match fuel with
  | O => (s, OFuel, [])
  | S f =>
      match p with
      | PObserve =>
          match s with
          | c :: _ => (s, ONormal, [(c, length s, option_map l_index (f_parent s))])
          | [] => (s, ORaised, [])                 (* No loop context is established *)
          end
      | PText => (s, ONormal, [])
      | PRaise => (s, ORaised, [])
      | PBreak => (s, OBreak, [])
      | PReturn => (s, OReturn, [])
      | PFor n body =>
          if rl p then
            (* loop = __M_loop._enter(..) ; try: for ..: body ; finally: loop = __M_loop._exit() *)
            let '(s1, o1, t1) := iterate (exec f) body n (enter (N.of_nat n) s) true in
            (exit_ s1, o1, t1)
          else iterate (exec f) body n s false
      | PForRaise _ => (s, ORaised, [])          (* the iterable is evaluated before _enter and outside the try *)
      | PTry b h =>
          let '(s1, o1, t1) := run_list (exec f) b s in
          match o1 with
          | ORaised => let '(s2, o2, t2) := run_list (exec f) h s1 in (s2, o2, t1 ++ t2)
          | _ => (s1, o1, t1)
          end
      end
  end.
End Exec.

Definition loop_fuel : nat := 40.
Definition run_prog (l : list prog) : lstack * outcome * list obs :=
  exec (reads_loop loop_fuel) loop_fuel (PTry l []) [].
