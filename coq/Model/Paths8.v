(* Model/Paths8.v -- what the meaning of a template must not depend on:
   (1) the order in which write_variable_declares emits the hoisted declarations of a render function
       (it iterates over a set, so the order varies with PYTHONHASHSEED): each declaration binds one
       name to a value that depends only on the context;
   (2) the module identifier (re.sub(\W, _, uri)) under which ModuleInfo registers a template's
       source and module in the registry that _get_module_info consults by module name
       (mako/template.py:255-263, 578-625, 861-866).  Template.source / Template.code themselves
       answer from the template's own ModuleInfo (fix 027f356) and do not go through it.
   Definitions only. *)
From Coq Require Import Permutation.
From MakoV Require Import Lib.Str Gen.Unicode.
Open Scope N_scope.

(* ---- (1) hoisted declarations ---------------------------------------------------------------------- *)
(* name = context.get(name, UNDEFINED)   or   name = _import_ns.get(name, context.get(name, UNDEFINED))
   or a def stub: in every case the value bound is a function of the name alone *)
Definition run_decls {V} (src : N -> V) (names : list N) (env : list (N * V)) : list (N * V) :=
  fold_left (fun e x => (x, src x) :: e) names env.

(* ---- (2) the registry ------------------------------------------------------------------------------- *)
Definition module_id (uri : str) : str := map (fun c => if is_word c then c else 95) uri.

(* ModuleInfo._modules: the newest registration under a key answers; a template is a number *)
Definition registry := list (str * N).
Definition register (r : registry) (uri : str) (t : N) : registry := (module_id uri, t) :: r.
Definition answers (r : registry) (uri : str) : option N := assocS (module_id uri) r.

(* the registry after a sequence of constructions *)
Fixpoint register_all (r : registry) (l : list (str * N)) : registry :=
  match l with
  | [] => r
  | (u, t) :: rest => register_all (register r u t) rest
  end.

(* ---- (3) the order of the hoisted lines --------------------------------------------------------------- *)
(* write_variable_declares iterates over sorted(to_write, key=(is a def, name)) (fixes fe522bf, d4d69a4), the page arguments of
   __M_locals and the names a <% %> block publishes are sorted likewise (a3a93d6): the text of the module, the order of the
   context's keys and the name a strict_undefined template reports are functions of the sets *)
(* lexicographic order of strings by code point, a proper prefix first: the order of Python's sorted() on str *)
Fixpoint str_leb (a b : str) : bool :=
  match a, b with
  | [], _ => true
  | _ :: _, [] => false
  | x :: a', y :: b' => if x <? y then true else if y <? x then false else str_leb a' b'
  end.

Fixpoint insert_s (x : str) (l : list str) : list str :=
  match l with
  | [] => [x]
  | y :: r => if str_leb x y then x :: l else y :: insert_s x r
  end.
Definition sort_s (l : list str) : list str := fold_right insert_s [] l.

(* write_variable_declares: the context look-ups first, then the closures / def stubs, each group in sorted order *)
Definition emitted (names defs : list str) : list str := sort_s names ++ sort_s defs.


(* which missing name a strict_undefined template reports: the first one in that sequence *)
Definition first_missing (have : str -> bool) (names defs : list str) : option str :=
  find (fun x => negb (have x)) (emitted names defs).

