(* Model/Inherit.v -- dispatch along an inheritance chain: runtime._populate_self_namespace /
   _inherit_from (which namespace is self / next / parent / local in each template's context),
   TemplateNamespace.__getattr__ (own member, else the namespace it inherits), and the guard
   codegen.visitBlockTag writes around the call of a named block.  A chain lists its templates
   most derived first.  Definitions only. *)
From MakoV Require Import Lib.Str.
Open Scope N_scope.

Inductive which := WSelf | WNext | WParent | WLocal.

Inductive item :=
| IText (marker : N)
| IBlock (name : N)                 (* a named block tag at this position; its content is the member of that name *)
| ICall (w : which) (name : N)      (* dollar-brace w.name() ; name 0 is body *)
| IAttr (w : which) (name : N).     (* dollar-brace w.attr.name : a module-level attribute through _NSAttr *)

Record tmpl := {
  members : list (N * list item);     (* defs, named blocks and body (name 0) *)
  attrs : list N                      (* names bound at module level, whatever their value *)
}.
Definition chain := list tmpl.

Definition has_def (t : tmpl) (x : N) : bool := existsb (fun m => fst m =? x) (members t).
Definition member (t : tmpl) (x : N) : option (list item) := assocN x (members t).

(* TemplateNamespace.__getattr__ from the namespace of template i: its own member, else further toward the base *)
Fixpoint lookup_from (c : chain) (i : nat) (x : N) : option nat :=
  match c with
  | [] => None
  | t :: r =>
      match i with
      | S i' => option_map S (lookup_from r i' x)
      | O => if has_def t x then Some O else option_map S (lookup_from r O x)
      end
  end.

(* the namespaces visible in the context of template k *)
Definition resolve (c : chain) (k : nat) (w : which) : option nat :=
  match w with
  | WSelf => Some O
  | WLocal => Some k
  | WNext => match k with O => None | S k' => Some k' end
  | WParent => if Nat.ltb (S k) (length c) then Some (S k) else None
  end.

(* if 'parent' not in context._data or not hasattr(context._data['parent'], name) *)
Definition block_renders (c : chain) (k : nat) (b : N) : bool :=
  match resolve c k WParent with
  | None => true
  | Some p => match lookup_from c p b with Some _ => false | None => true end
  end.

(* _NSAttr.__getattr__: the module of the namespace's template, else of the namespace it inherits *)
Fixpoint attr_from (c : chain) (i : nat) (x : N) : option nat :=
  match c with
  | [] => None
  | t :: r =>
      match i with
      | S i' => option_map S (attr_from r i' x)
      | O => if memN x (attrs t) then Some O else option_map S (attr_from r O x)
      end
  end.

Inductive event := EText (marker : N) | EEnter (template : nat) (name : N) | EAttr (template : nat) (name : N) | EError.

Fixpoint run (fuel : nat) (c : chain) (k : nat) (items : list item) : list event * bool :=   (* events, ok *)
  match fuel with
  | O => ([EError], false)
  | S f =>
      match items with
      | [] => ([], true)
      | it :: rest =>
          let call (start : option nat) (x : N) : list event * bool :=
            match start with
            | None => ([EError], false)
            | Some i =>
                match lookup_from c i x with
                | None => ([EError], false)
                | Some j =>
                    match nth_error c j with
                    | Some t => match member t x with
                                | Some body => let (ev, ok) := run f c j body in (EEnter j x :: ev, ok)
                                | None => ([EError], false)
                                end
                    | None => ([EError], false)
                    end
                end
            end in
          let '(ev1, ok1) :=
            match it with
            | IText m => ([EText m], true)
            | IBlock b => if block_renders c k b then call (Some O) b else ([], true)
            | ICall w x => call (resolve c k w) x
            | IAttr w x =>
                match resolve c k w with
                | None => ([EError], false)
                | Some i => match attr_from c i x with Some j => ([EAttr j x], true) | None => ([EError], false) end
                end
            end in
          if ok1 then let (ev2, ok2) := run f c k rest in (ev1 ++ ev2, ok2) else (ev1, false)
      end
  end.

(* rendering the most derived template runs the body of the base-most one *)
Definition render (c : chain) : list event * bool :=
  match length c with
  | O => ([EError], false)
  | S n => run 200 c n [ICall WLocal 0]
  end.
