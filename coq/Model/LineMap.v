(* Model/LineMap.v -- how a line of a generated module is related to a template line:
   PythonPrinter's line accounting (mako/pygen.py:55-76, writeline's line count),
   Compiler.write_metadata_struct (mako/codegen.py:153-156),
   ModuleInfo.get_module_source_metadata's dense full_line_map (mako/template.py:607-625), and
   RichTraceback._init's per-frame translation and choice of the reported line
   (mako/exceptions.py:142-232).  Definitions only. *)
From MakoV Require Import Lib.Str.
Open Scope N_scope.

(* ---- the printer ------------------------------------------------------------------------------- *)
Inductive pop :=
| PStart (n : N)                          (* start_source(n) *)
| PWrite (lines : N)                      (* writeline(text) with text.split(LF) of that length; writeline(None) = PWrite 0 *)
| PBlock (nlines : nat) (start : option N)  (* write_indented_block(block, starting_lineno) *)
| PBlanks (n : N)                         (* write_blanks(n) *)
| PMeta.                                  (* write_metadata_struct's sentinel entry *)

Record pst := { lineno : N; smap : list (N * N) }.
Definition pst0 : pst := {| lineno := 1; smap := [] |}.

Definition has_key (k : N) (m : list (N * N)) : bool := existsb (fun kv => fst kv =? k) m.

Definition start_source (s : pst) (n : N) : pst :=
  if has_key (lineno s) (smap s) then s else {| lineno := lineno s; smap := smap s ++ [(lineno s, n)] |}.

Definition advance (s : pst) (k : N) : pst := {| lineno := lineno s + k; smap := smap s |}.

Fixpoint block (s : pst) (n : nat) (start : option N) : pst :=
  match n with
  | O => s
  | S n' =>
      let s1 := match start with Some st => start_source s st | None => s end in
      block (advance s1 1) n' (match start with Some st => Some (st + 1) | None => None end)
  end.

Fixpoint maxkey (m : list (N * N)) : N :=
  match m with [] => 0 | (k, _) :: r => N.max k (maxkey r) end.

Fixpoint set_key (k v : N) (m : list (N * N)) : list (N * N) :=
  match m with
  | [] => [(k, v)]
  | (k', v') :: r => if k' =? k then (k, v) :: r else (k', v') :: set_key k v r
  end.

Definition pstep (s : pst) (o : pop) : pst :=
  match o with
  | PStart n => start_source s n
  | PWrite k => advance s k
  | PBlock n st => block s n st
  | PBlanks n => advance s n
  | PMeta => {| lineno := lineno s; smap := set_key (lineno s) (maxkey (smap s)) (smap s) |}
  end.

Definition prun (ops : list pop) : pst := fold_left pstep ops pst0.

(* ---- the dense map ------------------------------------------------------------------------------- *)
Fixpoint full_from (lm : list (N * N)) (cur : N) (m : N) (count : nat) : list N :=
  match count with
  | O => []
  | S c => let cur' := match assocN m lm with Some v => v | None => cur end in
           cur' :: full_from lm cur' (m + 1) c
  end.

(* for mod_line in range(1, max(line_map)) *)
Definition full_line_map (lm : list (N * N)) : list N := full_from lm 1 1 (N.to_nat (maxkey lm - 1)).

(* ---- RichTraceback -------------------------------------------------------------------------------- *)
(* a raw frame: is it a frame of a known template module (with that module's line map and the
   number of lines of its template source), and its line *)
Record frame := { f_module : option (list (N * N) * N); f_lineno : N }.

Inductive trans :=
| TPlain (lineno : N)                                   (* reported unchanged *)
| TTemplate (lineno : N) (template_ln : N) (line_ix : option N)    (* index of the template source line shown *)
| TIndexError.                                          (* line_map[lineno - 1] out of range *)

Definition translate (f : frame) : trans :=
  match f_module f with
  | None => TPlain (f_lineno f)
  | Some (lm, nlines) =>
      let full := full_line_map lm in
      if (f_lineno f =? 0) then                      (* index -1: the last entry *)
        match rev full with v :: _ => TTemplate 0 v (if v <=? nlines then Some (if v =? 0 then nlines - 1 else v - 1) else None) | [] => TIndexError end
      else
      match nth_error full (N.to_nat (f_lineno f - 1)) with
      | Some v => TTemplate (f_lineno f) v
                    (if v <=? nlines then Some (if v =? 0 then nlines - 1 else v - 1)   (* template_lines[-1] when v = 0 *)
                     else None)
      | None => TIndexError
      end
  end.

(* the line reported as the error's line: scanning the records from the last down to index 1
   for one with a truthy template line; None = the last frame's own file and line are used *)
Fixpoint select_from (recs : list trans) (skip_first : bool) : option N :=
  match recs with
  | [] => None
  | r :: rest =>
      match select_from rest false with
      | Some v => Some v
      | None => if skip_first then None
                else match r with TTemplate _ v _ => if v =? 0 then None else Some v | _ => None end
      end
  end.
Definition select (recs : list trans) : option N := select_from recs true.
