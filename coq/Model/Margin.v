(* Model/Margin.v -- pygen.adjust_whitespace (mako/pygen.py:236-309): removing the left margin of
   a block of Python code, line by line, with the line-state machine that protects the inside of
   triple-quoted strings and backslash-continued lines.  Definitions only. *)
From MakoV Require Import Lib.Str.
Open Scope N_scope.

Definition cTAB : N := 9.   Definition cSP : N := 32.  Definition cBS : N := 92.
Definition cHASHm : N := 35.  Definition cDQm : N := 34.  Definition cSQm : N := 39.

(* re.split(r"\r?\n", text) *)
Fixpoint split_lines (s : str) (cur : str) : list str :=
  match s with
  | [] => [cur]
  | c :: r =>
      if c =? LF then cur :: split_lines r []
      else if (c =? CR) && (match r with d :: _ => d =? LF | [] => false end) then
        split_lines r cur                        (* the CR of a CRLF is dropped; its LF ends the line *)
      else split_lines r (cur ++ [c])
  end.

Fixpoint join_lf (l : list str) : str :=
  match l with
  | [] => []
  | [x] => x
  | x :: r => x ++ LF :: join_lf r
  end.

(* str.expandtabs() with tab size 8 *)
Fixpoint expandtabs (s : str) (col : nat) : str :=
  match s with
  | [] => []
  | c :: r =>
      if c =? cTAB then
        let n := (8 - Nat.modulo col 8)%nat in repeat cSP n ++ expandtabs r (col + n)
      else if (c =? LF) || (c =? CR) then c :: expandtabs r 0
      else c :: expandtabs r (S col)
  end.

Inductive quote := QD | QS.       (* the open triple-quote delimiter *)
Definition delim (q : quote) : str := match q with QD => [cDQm; cDQm; cDQm] | QS => [cSQm; cSQm; cSQm] end.

Record mstate := { backslashed : bool; triple : option quote }.
Definition m0 : mstate := {| backslashed := false; triple := None |}.

Definition ends_with_backslash (l : str) : bool := match rev l with c :: _ => c =? cBS | [] => false end.

(* the scan of one line: which triple quote (if any) is open at its end *)
Fixpoint scan_line (l : str) (t : option quote) (skip : nat) : option quote :=
  match l with
  | [] => t
  | c :: r =>
      match skip with
      | S k => scan_line r t k
      | O =>
          match t with
          | Some q => if starts_with (delim q) l then scan_line r None 2 else scan_line r t 0
          | None =>
              if c =? cHASHm then None                              (* the rest of the line is a comment *)
              else if starts_with (delim QD) l then scan_line r (Some QD) 2
              else if starts_with (delim QS) l then scan_line r (Some QS) 2
              else scan_line r None 0
          end
      end
  end.

(* in_multi_line: returns (was this line inside a multi-line construct?, new state) *)
Definition in_multi_line (st : mstate) (l : str) : bool * mstate :=
  let start := backslashed st || match triple st with Some _ => true | None => false end in
  (start, {| backslashed := ends_with_backslash l; triple := scan_line l (triple st) 0 |}).

Definition is_blank_m (c : N) : bool := (c =? cSP) || (c =? cTAB).

Fixpoint leading_blanks (l : str) : str :=
  match l with c :: r => if is_blank_m c then c :: leading_blanks r else [] | [] => [] end.

(* (fix 7d519c1) only the tabs of the leading whitespace are expanded: a tab further on may stand inside a string literal *)
Definition expand_margin (l : str) : str :=
  let m := leading_blanks l in expandtabs m 0 ++ skipn (length m) l.

(* re.search(r"^[ \t]*[^# \t]", line): the first non-blank character exists and is not "#" *)
Definition sets_margin (l : str) : bool :=
  match skipn (length (leading_blanks l)) l with
  | c :: _ => negb (c =? cHASHm)
  | [] => false
  end.

(* re.sub("^" + stripspace, "", line) *)
Definition strip_margin (margin : option str) (l : str) : str :=
  match margin with
  | None => l                          (* the pattern "^None" matches no blank or comment line *)
  | Some m => match strip_prefix m l with Some r => r | None => l end
  end.

Fixpoint adjust_lines (ls : list str) (st : mstate) (margin : option str) : list str :=
  match ls with
  | [] => []
  | l :: r =>
      let (inside, st') := in_multi_line st l in
      if inside then l :: adjust_lines r st' margin
      else
        let l1 := expand_margin l in
        let margin' := match margin with
                       | None => if sets_margin l1 then Some (leading_blanks l1) else None
                       | Some _ => margin
                       end in
        strip_margin margin' l1 :: adjust_lines r st' margin'
  end.

Definition adjust_whitespace (text : str) : str := join_lf (adjust_lines (split_lines text []) m0 None).

(* ---- the printer side: PythonPrinter._flush_adjusted_lines (mako/pygen.py:236-250) re-indents a
   buffered block to the current indentation level, with its own multi-line detector
   (_in_multi_line, pygen.py:211-234): a trailing backslash, and an odd number of triple-quote
   tokens on the line, counted by re.findall wherever they stand *)
Fixpoint count_triples (l : str) (skip : nat) : nat :=
  match l with
  | [] => O
  | _ :: r =>
      match skip with
      | S k => count_triples r k
      | O => if starts_with (delim QD) l || starts_with (delim QS) l then S (count_triples r 2) else count_triples r 0
      end
  end.

Record pstate := { p_backslashed : bool; p_triple : bool }.
Definition p0 : pstate := {| p_backslashed := false; p_triple := false |}.

Definition p_in_multi_line (st : pstate) (l : str) : bool * pstate :=
  (p_backslashed st || p_triple st,
   {| p_backslashed := ends_with_backslash l;
      p_triple := if Nat.odd (count_triples l 0) then negb (p_triple st) else p_triple st |}).

(* _indent_line(entry, stripspace) *)
Definition indent_line (ind : str) (margin : option str) (l : str) : str :=
  match margin with
  | None => l                                     (* the pattern "^None" matches no blank or comment line *)
  | Some [] => ind ++ l
  | Some m => match strip_prefix m l with Some r => ind ++ r | None => l end
  end.

Fixpoint flush_lines (ind : str) (ls : list str) (st : pstate) (margin : option str) : list str :=
  match ls with
  | [] => []
  | l :: r =>
      let (inside, st') := p_in_multi_line st l in
      if inside then l :: flush_lines ind r st' margin
      else
        let l1 := expand_margin l in
        let margin' := match margin with
                       | None => if sets_margin l1 then Some (leading_blanks l1) else None
                       | Some _ => margin
                       end in
        indent_line ind margin' l1 :: flush_lines ind r st' margin'
  end.

(* write_indented_block(block) at indentation level n, then a flush: the lines written *)
Definition flush_block (level : nat) (block : str) : list str :=
  flush_lines (concat (repeat (s2l "    ") level)) (split_lines block []) p0 None.
