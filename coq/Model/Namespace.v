(* Model/Namespace.v -- reaching other templates: which member a namespace answers with
   (Namespace / TemplateNamespace.__getattr__: inline defs, then the template's own defs, then the
   namespace it inherits), what import= puts in front of context variables (_populate / _get_star and
   the _import_ns.get(name, context.get(name)) line codegen writes), which arguments an included
   template's body receives (_kwargs_for_include), which inheritance tokens an include drops
   (_clean_inheritance_tokens), and against what a URI is resolved (TemplateLookup.adjust_uri, from
   Model/Paths.v).  Definitions only. *)
From MakoV Require Import Lib.Str Model.Paths.
Open Scope N_scope.

(* ---- members ---------------------------------------------------------------------------------- *)
(* where a member comes from *)
Inductive origin := OInline (ns : N) | OFile (ns : N) | OContext | OBuiltin | OUndefined.

Inductive namespace :=
| NS (id : N) (inline : list N) (file_defs : list N) (exports : list N) (inherits : option namespace).

Fixpoint ns_get (n : namespace) (key : N) : option origin :=
  match n with
  | NS id inline file_defs _ inh =>
      if memN key inline then Some (OInline id)
      else if memN key file_defs then Some (OFile id)
      else match inh with Some p => ns_get p key | None => None end
  end.

(* _get_star: the inline defs, then the template module's exports *)
Definition ns_star (n : namespace) : list (N * origin) :=
  match n with
  | NS id inline _ exports _ => map (fun k => (k, OInline id)) inline ++ map (fun k => (k, OFile id)) exports
  end.

Inductive import_item := ImpStar | ImpName (k : N).

(* _populate(d, l): later entries overwrite earlier ones; a missing name raises AttributeError *)
Fixpoint populate (n : namespace) (l : list import_item) (d : list (N * origin)) : option (list (N * origin)) :=
  match l with
  | [] => Some d
  | ImpStar :: r => populate n r (ns_star n ++ d)              (* newest first *)
  | ImpName k :: r =>
      match ns_get n k with
      | Some o => populate n r ((k, o) :: d)
      | None => None
      end
  end.

(* all namespaces with an import attribute, in declaration order, fill one dictionary *)
Fixpoint import_ns (l : list (namespace * list import_item)) (d : list (N * origin)) : option (list (N * origin)) :=
  match l with
  | [] => Some d
  | (n, items) :: r => match populate n items d with Some d' => import_ns r d' | None => None end
  end.

(* x = _import_ns.get(x, context.get(x, UNDEFINED)) with Context.get falling back on builtins *)
Definition resolve_imported (imports : list (N * origin)) (context builtins : list N) (x : N) : origin :=
  match assocN x imports with
  | Some o => o
  | None => if memN x context then OContext else if memN x builtins then OBuiltin else OUndefined
  end.

(* ---- include ------------------------------------------------------------------------------------ *)
(* _kwargs_for_include: the arguments given in args=, then for every named parameter of the included
   body a context variable of that name *)
Fixpoint kwargs_for_include {V} (params : list N) (data : list (N * V)) (kwargs : list (N * V)) : list (N * V) :=
  match params with
  | [] => kwargs
  | p :: r =>
      match assocN p kwargs, assocN p data with
      | None, Some v => kwargs_for_include r data (kwargs ++ [(p, v)])
      | _, _ => kwargs_for_include r data kwargs
      end
  end.

Definition tok_self : N := 1.  Definition tok_parent : N := 2.  Definition tok_next : N := 3.  Definition tok_local : N := 4.
(* _clean_inheritance_tokens, then _populate_self_namespace sets self and local anew *)
Definition include_context {V} (data : list (N * V)) (own : V) : list (N * V) :=
  (tok_self, own) :: (tok_local, own) ::
  filter (fun kv => negb ((fst kv =? tok_self) || (fst kv =? tok_parent) || (fst kv =? tok_next) || (fst kv =? tok_local))) data.

(* ---- URIs ------------------------------------------------------------------------------------------- *)
(* the template a tag written in the template at calling_uri reaches *)
Definition reached (uri calling_uri : str) : str := normpath (adjust_uri uri (Some calling_uri)).
