(* Model/Filters.v -- executable model of mako/filters.py over the regenerated
   tables (Gen/Filters.v) and CPython's character classes (Gen/Unicode.v).
   Definitions only; proofs are in Proofs/FiltersProofs.v. *)
From MakoV Require Import Lib.Str Lib.Utf8 Gen.Unicode Gen.Filters.
Open Scope N_scope.

(* ---- generic: re.sub of a single-character class through a table -------- *)
(* None = the Python code raises (KeyError: class member missing from table) *)
Fixpoint sub_chars (sel : N -> bool) (tbl : N -> option str) (s : str) : option str :=
  match s with
  | [] => Some []
  | c :: r =>
      match sub_chars sel tbl r with
      | None => None
      | Some r' =>
          if sel c then
            match tbl c with Some e => Some (e ++ r') | None => None end
          else Some (c :: r')
      end
  end.

(* ---- x : filters.xml_escape ------------------------------------------- *)
Definition xml_escape (s : str) : option str :=
  sub_chars (fun c => memN c xml_escape_class) (fun c => assocN c xml_escapes) s.

(* ---- h : markupsafe.escape (third party; modelled, compared) ------------ *)
Definition html_table : list (N * str) :=
  [(38, s2l "&amp;"); (60, s2l "&lt;"); (62, s2l "&gt;"); (39, s2l "&#39;"); (34, s2l "&#34;")].
Definition html_class : list N := [38; 60; 62; 39; 34].
Definition html_escape (s : str) : option str :=
  sub_chars (fun c => memN c html_class) (fun c => assocN c html_table) s.

(* ---- u : quote_plus(s.encode("utf8")) ----------------------------------- *)
Definition url_unreserved (b : N) : bool :=
  is_ascii_alnum b || (b =? 95) || (b =? 46) || (b =? 45) || (b =? 126).

Definition quote_byte (b : N) : str :=
  if url_unreserved b then [b]
  else if b =? 32 then [43]
  else [37; hexdigit_upper (b / 16); hexdigit_upper (b mod 16)].

Definition quote_plus (bs : list N) : str := flat_map quote_byte bs.

Definition url_escape (s : str) : option str :=
  option_map quote_plus (utf8_encode s).

(* ---- entity : str.translate(codepoint2entity) --------------------------- *)
Definition html_entities_escape (s : str) : str :=
  flat_map (fun c => match assocN c codepoint2entity with Some e => e | None => [c] end) s.

(* ---- XMLEntityEscaper.escape (used by the htmlentityreplace handler) ---- *)
(* hexadecimal, upper case, no leading zeros ("%X") *)
Fixpoint hex_digits_le (fuel : nat) (n : N) : list N :=
  match fuel with
  | O => []
  | S f => (n mod 16) :: (if n / 16 =? 0 then [] else hex_digits_le f (n / 16))
  end.
Definition to_hex (n : N) : str := map hexdigit_upper (rev (hex_digits_le 16 n)).

Definition numeric_ref (c : N) : str := s2l "&#x" ++ to_hex c ++ [59].

Definition escape_ref (c : N) : str :=
  match assocN c codepoint2entity with Some e => e | None => numeric_ref c end.

(* result is ASCII bytes unless a table entry is not ASCII (then .encode("ascii") raises) *)
Definition entity_escape_full (s : str) : option str :=
  let o := flat_map (fun c => if rmem c entity_escapable then escape_ref c else [c]) s in
  if forallb (fun c => c <? 128) o then Some o else None.

(* ---- html_entities_unescape: the three-alternative reference scanner ---- *)
Fixpoint span (p : N -> bool) (s : str) : str * str :=
  match s with
  | c :: r => if p c then let (a, b) := span p r in (c :: a, b) else ([], s)
  | [] => ([], [])
  end.

Definition is_hexchar_re (c : N) : bool :=
  is_digit c || ((97 <=? c) && (c <=? 102)) || ((65 <=? c) && (c <=? 70)).   (* the class: digits, a-f, A-F *)
Definition name_start (c : N) : bool := ((c =? 58) || is_word c) && negb (is_digit c).   (* (?!\d)[:\w] *)
Definition name_char (c : N) : bool := (c =? 45) || (c =? 46) || (c =? 58) || is_word c. (* [-.:\w] *)

Definition hexchar_value (c : N) : N :=
  match digit_value c with Some v => v | None => if 97 <=? c then c - 87 else c - 55 end.

Fixpoint digits_value (base : N) (val : N -> N) (s : str) (acc : N) : N :=
  match s with
  | [] => acc
  | c :: r => digits_value base val r (acc * base + val c)
  end.

(* what follows '&': Some (code point, number of characters consumed after '&') *)
Definition parse_dec_ref (r1 : str) : option (N * nat) :=
  let (ds, rest) := span is_digit r1 in
  match ds, rest with
  | _ :: _, t :: _ =>
      if t =? 59 then
        Some (digits_value 10 (fun c => match digit_value c with Some v => v | None => 0 end) ds 0,
              S (S (length ds)))
      else None
  | _, _ => None
  end.

Definition parse_hex_ref (r1 : str) : option (N * nat) :=
  match r1 with
  | x :: r2 =>
      if x =? 120 then
        let (hs, rest2) := span is_hexchar_re r2 in
        match hs, rest2 with
        | _ :: _, t :: _ =>
            if t =? 59 then Some (digits_value 16 hexchar_value hs 0, S (S (S (length hs)))) else None
        | _, _ => None
        end
      else None
  | [] => None
  end.

Definition parse_name_ref (c : N) (r1 : str) : option (N * nat) :=
  if name_start c then
    let (nm, rest) := span name_char r1 in
    match nm, rest with
    | _ :: _, t :: _ =>
        if t =? 59 then
          Some (match assocS (c :: nm) name2codepoint with Some v => v | None => 65533 end,
                S (S (length nm)))
        else None
    | _, _ => None
    end
  else None.

Definition parse_charref (r : str) : option (N * nat) :=
  match r with
  | c :: r1 =>
      if c =? 35 then
        match parse_dec_ref r1 with
        | Some x => Some x
        | None => parse_hex_ref r1
        end
      else parse_name_ref c r1
  | [] => None
  end.

(* None = chr() raises (value beyond U+10FFFF) *)
Fixpoint unescape_go (s : str) (skip : nat) : option str :=
  match s with
  | [] => Some []
  | c :: r =>
      match skip with
      | S k => unescape_go r k
      | O =>
          if c =? 38 then
            match parse_charref r with
            | Some (v, n) =>
                if v <? 1114112 then option_map (cons v) (unescape_go r n) else None
            | None => option_map (cons c) (unescape_go r 0)
            end
          else option_map (cons c) (unescape_go r 0)
      end
  end.
Definition html_entities_unescape (s : str) : option str := unescape_go s 0.

(* ---- trim : str.strip() --------------------------------------------------- *)
Fixpoint lstrip (s : str) : str :=
  match s with
  | c :: r => if is_strip_space c then lstrip r else s
  | [] => []
  end.
Definition trim (s : str) : str := rev (lstrip (rev (lstrip s))).

(* ---- decode.<enc> --------------------------------------------------------- *)
Inductive pyobj :=
| PStr (s : str)
| PBytes (b : list N)
| POther (str_of : str).                 (* any other object, with its str() *)

(* the codec is an oracle; None = it raises *)
Definition decode_filter (codec : list N -> option str) (x : pyobj) : option str :=
  match x with
  | PStr s => Some s
  | POther s => Some s
  | PBytes b => codec b
  end.

(* ---- codec error handler "htmlentityreplace" ------------------------------ *)
(* A charset is an oracle [enc : N -> option bytes].  CPython's charmap/ascii/latin1
   encoders call the handler for each maximal run of unencodable characters and
   encode the replacement text again (raising if it is itself unencodable). *)
Fixpoint span_opt {A} (f : N -> option A) (s : str) : str * str :=   (* maximal run with f = None *)
  match s with
  | c :: r => match f c with None => let (a, b) := span_opt f r in (c :: a, b) | Some _ => ([], s) end
  | [] => ([], [])
  end.

Fixpoint encode_all (enc : N -> option (list N)) (s : str) : option (list N) :=
  match s with
  | [] => Some []
  | c :: r => match enc c, encode_all enc r with Some b, Some br => Some (b ++ br) | _, _ => None end
  end.

(* per character formulation (equal to the run formulation because the handler is a
   homomorphism on runs; lemma in the proofs) *)
Fixpoint encode_replace (enc : N -> option (list N)) (s : str) : option (list N) :=
  match s with
  | [] => Some []
  | c :: r =>
      match encode_replace enc r with
      | None => None
      | Some br =>
          match enc c with
          | Some b => Some (b ++ br)
          | None =>
              match entity_escape_full [c] with
              | Some rep => match encode_all enc rep with Some b => Some (b ++ br) | None => None end
              | None => None
              end
          end
      end
  end.

(* ======================================================================= *)
(* Reference decoder and the property as decidable predicates (spec_C10)    *)
(* ======================================================================= *)

(* A standard character-reference decoder, written independently of the scanner
   above: '&' name-up-to-';' looked up by equality; '#'dec, '#x'hex (either case). *)
Fixpoint take_until_semi (fuel : nat) (s : str) : option (str * nat) :=   (* name, consumed incl ';' *)
  match fuel with
  | O => None
  | S f =>
      match s with
      | [] => None
      | c :: r =>
          if c =? 59 then Some ([], 1%nat)
          else if c =? 38 then None
          else match take_until_semi f r with Some (nm, n) => Some (c :: nm, S n) | None => None end
      end
  end.

Definition hex_val (c : N) : option N :=
  if is_ascii_digit c then Some (c - 48)
  else if (65 <=? c) && (c <=? 70) then Some (c - 55)
  else if (97 <=? c) && (c <=? 102) then Some (c - 87)
  else None.
Definition dec_val (c : N) : option N := if is_ascii_digit c then Some (c - 48) else None.

Fixpoint parse_num (base : N) (val : N -> option N) (s : str) (acc : N) : option N :=
  match s with
  | [] => Some acc
  | c :: r => match val c with Some v => parse_num base val r (acc * base + v) | None => None end
  end.

Definition ref_names : list (str * N) := (s2l "apos", 39) :: name2codepoint.

Definition ref_lookup (nm : str) : option N :=
  match nm with
  | h :: t =>
      if h =? 35 then
        match t with
        | x :: hs =>
            if ((x =? 120) || (x =? 88)) && negb (match hs with [] => true | _ => false end)
            then parse_num 16 hex_val hs 0
            else parse_num 10 dec_val t 0
        | [] => None
        end
      else assocS nm ref_names
  | [] => None
  end.

Fixpoint ref_unescape_go (s : str) (skip : nat) : str :=
  match s with
  | [] => []
  | c :: r =>
      match skip with
      | S k => ref_unescape_go r k
      | O =>
          if c =? 38 then
            match take_until_semi 40 r with
            | Some (nm, n) =>
                match ref_lookup nm with
                | Some v => v :: ref_unescape_go r n
                | None => c :: ref_unescape_go r 0
                end
            | None => c :: ref_unescape_go r 0
            end
          else c :: ref_unescape_go r 0
      end
  end.
Definition ref_unescape (s : str) : str := ref_unescape_go s 0.

Definition markup_chars : list N := [60; 62; 34; 39].
Definition no_markup (o : str) : bool := forallb (fun c => negb (memN c markup_chars)) o.

(* every '&' starts a reference the decoder understands *)
Fixpoint amps_ok (o : str) : bool :=
  match o with
  | [] => true
  | c :: r =>
      (if c =? 38 then
         match take_until_semi 40 r with
         | Some (nm, _) => match ref_lookup nm with Some _ => true | None => false end
         | None => false
         end
       else true) && amps_ok r
  end.

Definition spec_markup (s o : str) : bool :=
  no_markup o && amps_ok o && str_eqb (ref_unescape o) s.

(* u: output alphabet and inverse *)
Definition url_safe_char (c : N) : bool := url_unreserved c || (c =? 37) || (c =? 43).

(* [skip]: hex digits of the current escape still to be dropped *)
Fixpoint unquote_plus_go (s : str) (skip : nat) : option (list N) :=
  match s with
  | [] => match skip with O => Some [] | _ => None end
  | c :: r =>
      match skip with
      | S k => unquote_plus_go r k
      | O =>
          if c =? 37 then
            match r with
            | h :: l :: _ =>
                match hex_val h, hex_val l with
                | Some a, Some b => option_map (cons (a * 16 + b)) (unquote_plus_go r 2)
                | _, _ => None
                end
            | _ => None
            end
          else option_map (cons (if c =? 43 then 32 else c)) (unquote_plus_go r 0)
      end
  end.
Definition unquote_plus (s : str) : option (list N) := unquote_plus_go s 0.

Definition spec_url (s o : str) : bool :=
  forallb url_safe_char o &&
  match unquote_plus o with
  | Some bs => match utf8_decode bs with Some s' => str_eqb s' s | None => false end
  | None => false
  end.

(* entity: replaces exactly the characters with a named entity; unescape inverts *)
Definition has_entity (c : N) : bool :=
  match assocN c codepoint2entity with Some _ => true | None => false end.

(* [entity_exact s o]: o is s with each character having an entity replaced by a
   reference that decodes to it and every other character kept *)
Fixpoint entity_exact (s o : str) : bool :=
  match s with
  | [] => match o with [] => true | _ => false end
  | c :: r =>
      if has_entity c then
        match o with
        | 38 :: o1 =>
            match take_until_semi 40 o1 with
            | Some (nm, n) =>
                match assocS nm name2codepoint with
                | Some v => (v =? c) && entity_exact r (skipn n o1)
                | None => false
                end
            | None => false
            end
        | _ => false
        end
      else
        match o with
        | c' :: o1 => (c' =? c) && entity_exact r o1
        | [] => false
        end
  end.

Definition spec_trim (s o : str) : bool :=
  (* o is an infix of s, what is cut on both sides is whitespace, o has no
     leading/trailing whitespace *)
  let l := lstrip s in
  let cut := (length s - length l)%nat in
  str_eqb o (firstn (length o) l) &&
  forallb is_strip_space (skipn (length o) l) &&
  forallb is_strip_space (firstn cut s) &&
  match o with [] => true | c :: _ => negb (is_strip_space c) end &&
  match rev o with [] => true | c :: _ => negb (is_strip_space c) end.

(* handler: replacement of one unencodable character decodes back to it and is ASCII *)
Definition spec_replacement (c : N) (rep : str) : bool :=
  forallb (fun x => x <? 128) rep && str_eqb (ref_unescape rep) [c] &&
  match rep with 38 :: _ => true | _ => false end.
