(* driver for the extracted C10 model: one request per line, one answer per line *)
open Model
open Common

let show_opt = function Some s -> "ok " ^ field_of_str s | None -> "err"
let show_b b = if b then "1" else "0"

let one_cp c =
  let s = [c] in
  let e = html_entities_escape s in
  String.concat ","
    [ show_opt (xml_escape s); show_opt (html_escape s); show_opt (url_escape s);
      field_of_str e; show_opt (html_entities_unescape e); show_opt (entity_escape_full s);
      field_of_str (trim s) ]

let handle line =
  match fields line with
  | ["x"; s] -> show_opt (xml_escape (str_of_field s))
  | ["h"; s] -> show_opt (html_escape (str_of_field s))
  | ["u"; s] -> show_opt (url_escape (str_of_field s))
  | ["e"; s] -> "ok " ^ field_of_str (html_entities_escape (str_of_field s))
  | ["ue"; s] -> show_opt (html_entities_unescape (str_of_field s))
  | ["ef"; s] -> show_opt (entity_escape_full (str_of_field s))
  | ["t"; s] -> "ok " ^ field_of_str (trim (str_of_field s))
  | ["sweep"; lo; hi] ->
    let lo = int_of_string lo and hi = int_of_string hi in
    let b = Buffer.create 4096 in
    for c = lo to hi do
      Buffer.add_string b (one_cp (n_of_int c)); Buffer.add_char b ';'
    done;
    Buffer.contents b
  | ["enc"; s; tbl] ->
    (* tbl: c=b b b,c=-,...   ('-' after '=' means not encodable, empty bytes impossible) *)
    let entries = List.filter (fun t -> t <> "") (String.split_on_char ',' tbl) in
    let tab = Hashtbl.create 64 in
    List.iter (fun e ->
        match String.split_on_char '=' e with
        | [c; bs] -> Hashtbl.replace tab (int_of_string (String.trim c))
                       (if String.trim bs = "!" then None else Some (str_of_field bs))
        | _ -> failwith "enc table") entries;
    let enc c = try Hashtbl.find tab (int_of_n c) with Not_found -> None in
    show_opt (encode_replace enc (str_of_field s))
  | ["spec_markup"; s; o] -> show_b (spec_markup (str_of_field s) (str_of_field o))
  | ["spec_url"; s; o] -> show_b (spec_url (str_of_field s) (str_of_field o))
  | ["entity_exact"; s; o] -> show_b (entity_exact (str_of_field s) (str_of_field o))
  | ["spec_trim"; s; o] -> show_b (spec_trim (str_of_field s) (str_of_field o))
  | ["spec_repl"; c; rep] -> show_b (spec_replacement (n_of_int (int_of_string c)) (str_of_field rep))
  | ["ref_unescape"; s] -> field_of_str (ref_unescape (str_of_field s))
  | _ -> "!badrequest"

let () = iter_lines handle
