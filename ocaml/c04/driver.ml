open Model
open Common

(* resolve|strict 0/1|locals|module|imports|context|builtins|x      (each k:v,k:v)  -> local v / module v / import v / context v / builtin v / undefined / nameerror
   body|args kv|extras kv|mlocals kv|builtins kv|stmts: A x v / D x separated by ;      -> results separated by ;
   conflict|0/1|name;name  (names as code point fields)                -> 1 / 0 *)
let kvs s = List.map (fun kv -> match String.split_on_char ':' kv with
    | [k; v] -> (n_of_int (int_of_string k), n_of_int (int_of_string v)) | _ -> failwith "kv")
    (List.filter (fun t -> t <> "") (String.split_on_char ',' (String.trim s)))
let show = function
  | FValue (l, v) -> (match l with LLocal -> "local" | LModule -> "module" | LImport -> "import" | LContext -> "context" | LBuiltin -> "builtin") ^ " " ^ string_of_int (int_of_n v)
  | FUndefined -> "undefined" | FNameError -> "nameerror"

let handle line =
  match fields line with
  | ["resolve"; strict; lo; mo; im; cx; bi; x] ->
    show (resolve { e_locals = kvs lo; e_module = kvs mo; e_imports = kvs im; e_context = kvs cx; e_builtins = kvs bi; e_strict = (strict = "1") } (n_of_int (int_of_string x)))
  | ["body"; args; extras; ml; bi; stmts] ->
    let st = List.map (fun t -> match List.filter (fun x -> x <> "") (String.split_on_char ' ' t) with
        | ["A"; x; v] -> BAssign (n_of_int (int_of_string x), n_of_int (int_of_string v))
        | ["D"; x] -> BCallDef (n_of_int (int_of_string x))
        | _ -> failwith "stmt") (List.filter (fun t -> String.trim t <> "") (String.split_on_char ';' stmts)) in
    String.concat ";" (List.map show (run_body (new_context (kvs args) (kvs extras)) (kvs ml) (kvs bi) st))
  | ["conflict"; el; names] ->
    if conflict (el = "1") (List.map str_of_field (List.filter (fun t -> String.trim t <> "") (String.split_on_char ';' names))) then "1" else "0"
  | _ -> "!badrequest"

let () = iter_lines handle
