open Model
open Common

(* resolve|strict 0/1|locals|module|imports|context|builtins|x      (each k:v,k:v)  -> local v / module v / import v / context v / builtin v / undefined / nameerror
   body|args kv|extras kv|mlocals kv|builtins kv|stmts: A x v / D x separated by ;      -> results separated by ;
   conflict|0/1|name;name  (names as code point fields)                -> 1 / 0 *)
let kvs s = List.map (fun kv -> match String.split_on_char ':' kv with
    | [k; v] -> (n_of_int (int_of_string k), n_of_int (int_of_string v)) | _ -> failwith "kv")
    (List.filter (fun t -> t <> "") (String.split_on_char ',' (String.trim s)))
let show = function
  | FValue (l, v) -> (match l with LLocal -> "local" | LModule -> "module" | LImport -> "import" | LContext -> "context" | LBuiltin -> "builtin") ^ " " ^ string_of_int (int_of_n v)
  | FUndefined -> "undefined" | FNameError -> "nameerror"

(* ids|parent: 7 lists each "n x*" (declared undeclared locally_declared locally_assigned argument_declared topleveldefs closuredefs)|mode t / b0 / b1|nodes
   node: k nu u* nd d* (check) ; c nu u* nd d* (code) ; p na a* nu u* nd d* ; D root name na a* nu u* nb node* ; B hasname name na a* nu u* nb node* ;
         C nu u* na a* nb node* ; N nb node*
   -> the seven lists of the resulting ids and to_write, separated by / *)
let toks = ref []
let next () = match !toks with t :: r -> toks := r; t | [] -> failwith "eof"
let num () = int_of_string (next ())
let nn () = n_of_int (num ())
let rec times k f = if k <= 0 then [] else let x = f () in x :: times (k - 1) f
let names () = let k = num () in times k nn
let rec tnode () =
  match next () with
  | "k" -> let u = names () in let d = names () in TCheck (u, d)
  | "c" -> let u = names () in let d = names () in TCode (u, d)
  | "p" -> let a = names () in let u = names () in let d = names () in TPage (a, u, d)
  | "D" -> let root = (num () = 1) in let name = nn () in let a = names () in let u = names () in let nb = num () in TDef (root, name, a, u, times nb tnode)
  | "B" -> let has = (num () = 1) in let name = nn () in let a = names () in let u = names () in let nb = num () in
    TBlock (has, name, a, u, times nb tnode)
  | "C" -> let u = names () in let a = names () in let nb = num () in TCall (u, a, times nb tnode)
  | "N" -> let nb = num () in TNamespace (times nb tnode)
  | "f" -> let u = names () in let d = names () in let inside = (num () = 1) in TFor (u, d, inside)
  | t -> failwith ("tnode " ^ t)
let show_names l = String.concat " " (List.map (fun x -> string_of_int (int_of_n x)) l)

let handle line =
  match fields line with
  | ["resolve"; strict; lo; mo; im; cx; bi; x] ->
    show (resolve { e_locals = kvs lo; e_module = kvs mo; e_imports = kvs im; e_context = kvs cx; e_builtins = kvs bi; e_strict = (strict = "1") } (n_of_int (int_of_string x)))
  | ["body"; args; extras; ml; bi; stmts] ->
    let st = List.map (fun t -> match List.filter (fun x -> x <> "") (String.split_on_char ' ' t) with
        | ["A"; x; v] -> BAssign (n_of_int (int_of_string x), n_of_int (int_of_string v))
        | ["D"; x] -> BCallDef (n_of_int (int_of_string x))
        | _ -> failwith "stmt") (List.filter (fun t -> String.trim t <> "") (String.split_on_char ';' stmts)) in
    String.concat ";" (List.map show (run_body (new_context (kvs args) (kvs extras)) (kvs ml) (kvs bi) st))
  | ["ids"; parent; mode; nodes] ->
    toks := List.filter (fun t -> t <> "") (String.split_on_char ' ' parent);
    let d = names () in let u = names () in let ld = names () in let la = names () in let ad = names () in let td = names () in let cd = names () in
    let p = { declared = d; undeclared = u; locally_declared = ld; locally_assigned = la; argument_declared = ad; topleveldefs = td; closuredefs = cd } in
    toks := List.filter (fun t -> t <> "") (String.split_on_char ' ' nodes);
    let k = num () in let ns = times k tnode in
    let r = (match mode, ns with
        | "t", _ -> branch_template p ns
        | "b0", [n] -> branch p false n
        | "b1", [n] -> branch p true n
        | _ -> failwith "mode") in
    String.concat "/" (List.map show_names [r.declared; r.undeclared; r.locally_declared; r.locally_assigned; r.argument_declared; r.topleveldefs; r.closuredefs; to_write r])
  | ["conflict"; el; names] ->
    if conflict (el = "1") (List.map str_of_field (List.filter (fun t -> String.trim t <> "") (String.split_on_char ';' names))) then "1" else "0"
  | _ -> "!badrequest"

let () = iter_lines handle
