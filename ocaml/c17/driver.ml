open Model
open Common

(* token-stream parser: prefix notation with explicit counts *)
let toks = ref []
let next () = match !toks with t :: r -> toks := r; t | [] -> failwith "eof"
let num () = int_of_string (next ())
let nn () = n_of_int (num ())
let rec times k f = if k <= 0 then [] else let x = f () in x :: times (k - 1) f
let str () = let l = num () in times l nn

let rec sec () =
  (match next () with "S" -> () | t -> failwith ("sec " ^ t));
  let id = nn () in
  let cached = (num () = 1) in
  let key = (match next () with
      | "K" -> KConst (str ())
      | "X" -> KCtx (nn ())
      | t -> failwith ("key " ^ t)) in
  let nk = num () in
  let kids = times nk sec in
  Sec (id, cached, key, kids)

let rec vparse () =
  (match next () with "V" -> () | t -> failwith ("val " ^ t));
  let id = nn () in let n = nn () in let c = nn () in
  let nk = num () in
  let kids = times nk vparse in
  Val (id, n, c, kids)

let rec show_val (Val (id, n, c, kids)) =
  Printf.sprintf "[%d#%d@%d:%s]" (int_of_n id) (int_of_n n) (int_of_n c)
    (String.concat "" (List.map show_val kids))

let handle line =
  match fields line with
  | ["run"; body] ->
    toks := List.filter (fun t -> t <> "") (String.split_on_char ' ' body);
    let nt = num () in
    let tm = times nt (fun () -> let u = str () in let ns = num () in let ss = times ns sec in (u, ss)) in
    let uris = Array.of_list (List.map fst tm) in
    let nops = num () in
    let ops = times nops (fun () ->
        match next () with
        | "R" -> let t = num () in let c = nn () in Render (uris.(t), c)
        | "I" -> let t = num () in let k = str () in Invalidate (uris.(t), k)
        | "E" -> let t = num () in let b = (num () = 1) in SetEnabled (uris.(t), b)
        | "P" -> let t = num () in let k = str () in let v = vparse () in CSet (uris.(t), k, v)
        | t -> failwith ("op " ^ t)) in
    (match crun tm (nat_of_int 12) cinit ops with
     | None -> "!outoffuel"
     | Some (vss, s) ->
       String.concat "|" (List.map (fun vs -> String.concat "" (List.map show_val vs)) vss)
       ^ "|counters=" ^ String.concat "," (List.map (fun (i, n) -> Printf.sprintf "%d:%d" i n)
                                               (List.sort compare (List.map (fun (i, n) -> (int_of_n i, int_of_n n)) s.counters))))
  | ["module_id"; u] -> field_of_str (module_id (str_of_field u))
  | _ -> "!badrequest"

let () = iter_lines handle
