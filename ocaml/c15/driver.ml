open Model
open Common

let n s = n_of_int (int_of_string (String.trim s))
let words s = List.filter (fun t -> t <> "") (String.split_on_char ' ' (String.trim s))
let items s = List.filter (fun t -> String.trim t <> "") (String.split_on_char ',' s)
let pc_of = function "I" -> WInit | "S" -> WStart | _ -> failwith "pc"
let show_pc = function WInit -> "I" | WStart -> "S" | WCreated -> "C" | WWritten -> "W" | WClosed -> "X" | WDone -> "D" | WCrashed -> "K"
let show_content c = Printf.sprintf "%d:%d:%d" (int_of_n c.gen) (int_of_n c.written) (int_of_n c.total)

let handle line =
  match fields line with
  | ["sched"; t0; ws; sc] ->
    let t0 = (match words t0 with ["-"] -> None | [g; t] -> Some { gen = n g; written = n t; total = n t } | _ -> failwith "t0") in
    let ws = List.map (fun w -> match words w with
        | [i; g; t; p] -> (n i, { w_gen = n g; w_total = n t; w_pc = pc_of p })
        | _ -> failwith "writer") (items ws) in
    let sc = List.map (fun a -> match words a with
        | [i; "S"] -> (n i, Step) | [i; "B"] -> (n i, CrashBefore) | [i; "M"; k] -> (n i, CrashMidWrite (n k))
        | _ -> failwith "action") (items sc) in
    let d = run_sched (start t0 ws) sc in
    Printf.sprintf "target=%s;temps=%s;pcs=%s;ok=%s"
      (match d.target with None -> "-" | Some c -> show_content c)
      (String.concat "," (List.map (fun (i, c) -> string_of_int (int_of_n i) ^ "=" ^ show_content c) d.temps))
      (String.concat "," (List.map (fun (i, w) -> string_of_int (int_of_n i) ^ "=" ^ show_pc w.w_pc) d.writers))
      (if target_ok t0 ws d.target then "1" else "0")
  | ["decide"; cur; src; m] ->
    let m = (match words m with ["-"] -> None | [mt; mg; same] -> Some ((n mt, n mg), same = "1") | _ -> failwith "m") in
    Printf.sprintf "%s %d" (match decide (n cur) (n src) m with Rewrite -> "rewrite" | Reuse -> "reuse")
      (int_of_n (writes_performed (n cur) (n src) m))
  | _ -> "!badrequest"

let () = iter_lines handle
