open Model
open Common

(* ops|S n,W k,B n start,B n -,L n,M          -> lineno|k:v,k:v
   full|k:v,k:v                               -> v v v
   trans|k:v,..|nlines|lineno                 -> plain l / tmpl l v ix|- / indexerror
   select|rec;rec  (rec = p / t v / e)        -> v or - *)
let toks s = List.filter (fun t -> t <> "") (String.split_on_char ' ' (String.trim s))
let kvs s = List.map (fun kv -> match String.split_on_char ':' kv with
    | [k; v] -> (n_of_int (int_of_string k), n_of_int (int_of_string v)) | _ -> failwith "kv")
    (List.filter (fun t -> t <> "") (String.split_on_char ',' (String.trim s)))
let show_kvs l = String.concat "," (List.map (fun (k, v) -> string_of_int (int_of_n k) ^ ":" ^ string_of_int (int_of_n v)) l)

let op s = match toks s with
  | ["S"; n] -> PStart (n_of_int (int_of_string n))
  | ["W"; k] -> PWrite (n_of_int (int_of_string k))
  | ["B"; n; "-"] -> PBlock (nat_of_int (int_of_string n), None)
  | ["B"; n; st] -> PBlock (nat_of_int (int_of_string n), Some (n_of_int (int_of_string st)))
  | ["L"; n] -> PBlanks (n_of_int (int_of_string n))
  | ["M"] -> PMeta
  | _ -> failwith ("op " ^ s)

let handle line =
  match fields line with
  | ["ops"; o] ->
    let s = prun (List.map op (List.filter (fun t -> String.trim t <> "") (String.split_on_char ',' o))) in
    string_of_int (int_of_n s.lineno) ^ "|" ^ show_kvs s.smap
  | ["full"; m] -> String.concat " " (List.map (fun v -> string_of_int (int_of_n v)) (full_line_map (kvs m)))
  | ["trans"; m; nl; ln] ->
    (match translate { f_module = Some (kvs m, n_of_int (int_of_string nl)); f_lineno = n_of_int (int_of_string ln) } with
     | TPlain l -> "plain " ^ string_of_int (int_of_n l)
     | TTemplate (l, v, ix) -> "tmpl " ^ string_of_int (int_of_n l) ^ " " ^ string_of_int (int_of_n v) ^ " " ^
                               (match ix with Some i -> string_of_int (int_of_n i) | None -> "-")
     | TIndexError -> "indexerror")
  | ["select"; r] ->
    let recs = List.map (fun t -> match toks t with
        | ["p"] -> TPlain N0 | ["t"; v] -> TTemplate (N0, n_of_int (int_of_string v), None) | ["e"] -> TIndexError
        | _ -> failwith "rec") (List.filter (fun t -> String.trim t <> "") (String.split_on_char ';' r)) in
    (match select recs with Some v -> string_of_int (int_of_n v) | None -> "-")
  | _ -> "!badrequest"

let () = iter_lines handle
