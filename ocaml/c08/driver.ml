open Model
open Common

(* mid|uri                                -> module id
   reg|uri;uri;...|query uri              -> index (1-based, in construction order) of the template whose source answers, or - *)
let handle line =
  match fields line with
  | ["mid"; u] -> field_of_str (module_id (str_of_field u))
  | ["reg"; us; q] ->
    let uris = List.filter (fun t -> String.trim t <> "") (String.split_on_char ';' us) in
    let l = List.mapi (fun i u -> (str_of_field u, n_of_int (i + 1))) uris in
    (match answers (register_all [] l) (str_of_field q) with Some t -> string_of_int (int_of_n t) | None -> "-")
  | _ -> "!badrequest"

let () = iter_lines handle
