open Model
open Common

(* mid|uri                                -> module id
   emit|name;name;...|def;def;...         -> the hoisted names in the order of their lines, ;-separated
   reg|uri;uri;...|query uri              -> index (1-based, in construction order) of the template whose source answers, or - *)
let handle line =
  match fields line with
  | ["mid"; u] -> field_of_str (module_id (str_of_field u))
  | ["reg"; us; q] ->
    let uris = List.filter (fun t -> String.trim t <> "") (String.split_on_char ';' us) in
    let l = List.mapi (fun i u -> (str_of_field u, n_of_int (i + 1))) uris in
    (match answers (register_all [] l) (str_of_field q) with Some t -> string_of_int (int_of_n t) | None -> "-")
  | ["emit"; ns; ds] ->
    let items t = List.map str_of_field (List.filter (fun x -> String.trim x <> "") (String.split_on_char ';' t)) in
    String.concat ";" (List.map field_of_str (emitted (items ns) (items ds)))
  | _ -> "!badrequest"

let () = iter_lines handle
