open Model
open Common

(* render|ntemplates then per template: M nmembers, per member: name nitems items; item: T m, B name, C w name with w one of s n p l
   -> ok or err, then the events: t<m>, e<template>:<name>, x *)
let toks = ref []
let next () = match !toks with t :: r -> toks := r; t | [] -> failwith "eof"
let num () = int_of_string (next ())
let nn () = n_of_int (num ())
let rec times k f = if k <= 0 then [] else let x = f () in x :: times (k - 1) f
let item () =
  match next () with
  | "T" -> IText (nn ())
  | "B" -> IBlock (nn ())
  | "C" -> let w = (match next () with "s" -> WSelf | "n" -> WNext | "p" -> WParent | "l" -> WLocal | t -> failwith ("which " ^ t)) in ICall (w, nn ())
  | "A" -> let w = (match next () with "s" -> WSelf | "n" -> WNext | "p" -> WParent | "l" -> WLocal | t -> failwith ("which " ^ t)) in IAttr (w, nn ())
  | t -> failwith ("item " ^ t)
let tmpl () =
  match next () with
  | "M" -> let k = num () in
    let ms = times k (fun () -> let name = nn () in let ni = num () in (name, times ni item)) in
    let na = num () in
    { members = ms; attrs = times na nn }
  | t -> failwith ("tmpl " ^ t)

let handle line =
  match fields line with
  | ["render"; body] ->
    toks := List.filter (fun t -> t <> "") (String.split_on_char ' ' body);
    let n = num () in
    let c = times n tmpl in
    let (ev, ok) = render c in
    (if ok then "ok" else "err") ^ "|" ^ String.concat " " (List.map (function
        | EText m -> "t" ^ string_of_int (int_of_n m)
        | EEnter (j, x) -> "e" ^ string_of_int (int_of_nat j) ^ ":" ^ string_of_int (int_of_n x)
        | EAttr (j, x) -> "a" ^ string_of_int (int_of_nat j) ^ ":" ^ string_of_int (int_of_n x)
        | EError -> "x") ev)
  | _ -> "!badrequest"

let () = iter_lines handle
