(* ocaml/common.ml -- trusted glue between the line protocol and the extracted
   inductive number types.  Every Extract/<id>.v extracts N.of_nat so that
   Model.positive, Model.n and Model.nat exist. *)

let rec pos_of_int (i : int) : Model.positive =
  if i = 1 then Model.XH
  else if i land 1 = 0 then Model.XO (pos_of_int (i lsr 1))
  else Model.XI (pos_of_int (i lsr 1))

let n_of_int (i : int) : Model.n = if i = 0 then Model.N0 else Model.Npos (pos_of_int i)

let rec int_of_pos (p : Model.positive) : int =
  match p with Model.XH -> 1 | Model.XO q -> 2 * int_of_pos q | Model.XI q -> 2 * int_of_pos q + 1

let int_of_n (x : Model.n) : int = match x with Model.N0 -> 0 | Model.Npos p -> int_of_pos p

let rec nat_of_int (i : int) : Model.nat = if i <= 0 then Model.O else Model.S (nat_of_int (i - 1))

let int_of_nat (x : Model.nat) : int =
  let rec go acc = function Model.O -> acc | Model.S m -> go (acc + 1) m in
  go 0 x

(* "-" or "" is the empty string; otherwise space separated decimal code points *)
let str_of_field (f : string) : Model.n list =
  let f = String.trim f in
  if f = "-" || f = "" then []
  else List.map (fun t -> n_of_int (int_of_string t))
      (List.filter (fun t -> t <> "") (String.split_on_char ' ' f))

let field_of_str (s : Model.n list) : string =
  match s with
  | [] -> "-"
  | _ -> String.concat " " (List.map (fun c -> string_of_int (int_of_n c)) s)

let fields (line : string) : string list = String.split_on_char '|' line

let iter_lines (f : string -> string) : unit =
  (try
     while true do
       let l = input_line stdin in
       print_string (try f l with
           | Stack_overflow -> "!stackoverflow"
           | Not_found -> "!notfound"
           | Failure m -> "!failure " ^ m);
       print_char '\n'
     done
   with End_of_file -> ());
  flush stdout
