open Model
open Common

let toks = ref []
let next () = match !toks with t :: r -> toks := r; t | [] -> failwith "eof"
let num () = int_of_string (next ())
let nn () = n_of_int (num ())
let rec times k f = if k <= 0 then [] else let x = f () in x :: times (k - 1) f
let str () = let l = num () in times l nn
let names () = let k = num () in times k nn
let opt f = match next () with "-" -> None | "+" -> Some (f ()) | t -> failwith ("opt " ^ t)

let params () =
  let pos = names () in let star = opt nn in let kwo = names () in let dstar = opt nn in
  { p_pos = pos; p_star = star; p_kwonly = kwo; p_dstar = dstar }

let rec expr () =
  match next () with
  | "N" -> EName (nn ())
  | "K" -> EConst
  | "O" -> let k = num () in EOp (times k expr)
  | "L" -> let ps = params () in let nd = num () in let ds = times nd expr in let b = expr () in ELambda (ps, ds, b)
  | "C" -> let ne = num () in let elt = times ne expr in let tg = names () in let it = expr () in
    let ni = num () in let ifs = times ni expr in EComp (elt, tg, it, ifs)
  | t -> failwith ("expr " ^ t)

let rec stmt () =
  match next () with
  | "E" -> SExpr (expr ())
  | "A" -> let t = names () in SAssign (t, expr ())
  | "F" -> let t = names () in let it = expr () in let b = stmts () in let o = stmts () in SFor (t, it, b, o)
  | "I" -> let t = expr () in let b = stmts () in let o = stmts () in SIf (t, b, o)
  | "M" -> SImport (names ())
  | "D" -> let nm = nn () in let ps = params () in let nd = num () in let ds = times nd expr in let b = stmts () in SDef (nm, ps, ds, b)
  | "T" -> let b = stmts () in let ty = opt expr in let nm = opt nn in let h = stmts () in STryExcept (b, ty, nm, h)
  | t -> failwith ("stmt " ^ t)
and stmts () = let k = num () in times k stmt

let rec pexpr () =
  match next () with
  | "n" -> PName (str ())
  | "c" -> let r = str () in let kind = n_of_int (num ()) in PConst (r, kind)
  | "named" -> let t = pexpr () in let v = pexpr () in PNamed (t, v)
  | "a" -> let e = pexpr () in PAttr (e, str ())
  | "call" -> let f = pexpr () in let na = num () in let args = times na pexpr in let nk = num () in
    let kw = times nk (fun () -> let k = opt str in let v = pexpr () in (k, v)) in PCall (f, args, kw)
  | "bin" -> let op = str () in let l = pexpr () in let r = pexpr () in PBin (op, l, r)
  | "bool" -> let op = str () in let k = num () in PBool (op, times k pexpr)
  | "cmp" -> let l = pexpr () in let k = num () in PCmp (l, times k (fun () -> let o = str () in let e = pexpr () in (o, e)))
  | "un" -> let op = str () in PUnary (op, pexpr ())
  | "sub" -> let v = pexpr () in PSub (v, pexpr ())
  | "slice" -> let a = opt pexpr in let b = opt pexpr in let c = opt pexpr in PSlice (a, b, c)
  | "tuple" -> let k = num () in PTuple (times k pexpr)
  | "list" -> let k = num () in PList (times k pexpr)
  | "set" -> let k = num () in PSet (times k pexpr)
  | "dict" -> let k = num () in PDict (times k (fun () -> let key = opt pexpr in let v = pexpr () in (key, v)))
  | "if" -> let b = pexpr () in let t = pexpr () in let o = pexpr () in PIfExp (b, t, o)
  | "lam" -> let na = num () in let args = times na str in let nd = num () in let ds = times nd pexpr in
    let va = opt str in let nk = num () in let kwo = times nk str in let ka = opt str in let b = pexpr () in
    PLambda (args, ds, va, kwo, ka, b)
  | "star" -> PStarred (pexpr ())
  | "other" -> let kind = str () in let k = num () in POther (kind, times k pexpr)
  | t -> failwith ("pexpr " ^ t)

let show_names l = String.concat "," (List.map string_of_int (List.sort_uniq compare (List.map int_of_n l)))

let handle line =
  match fields line with
  | ["adjust"; s] -> field_of_str (adjust_whitespace (str_of_field s))
  | ["flush"; lvl; s] ->
    String.concat ";" (List.map field_of_str (flush_block (nat_of_int (int_of_string lvl)) (str_of_field s)))
  | ["scope"; body] ->
    toks := List.filter (fun t -> t <> "") (String.split_on_char ' ' body);
    let code = stmts () in
    let (d, u) = find_identifiers code in
    show_names d ^ "|" ^ show_names u ^ "|" ^ show_names (needs_from_namespace code)
  | ["print"; body] ->
    toks := List.filter (fun t -> t <> "") (String.split_on_char ' ' body);
    (match print_expr (pexpr ()) with Some s -> "ok " ^ field_of_str s | None -> "err")
  | _ -> "!badrequest"

let () = iter_lines handle
