open Model
open Common

(* reach|uri|calling                               -> the reached uri
   resolve|x|ncontext names|nbuiltins names|nns (ns nitems items)...   -> origin or attrerror
      ns: NS id ninline names nfile names nexports names (- or + ns) ; item: * or a name
   kwargs|params|data k:v,...|kwargs k:v,...       -> k:v,... *)
let toks = ref []
let next () = match !toks with t :: r -> toks := r; t | [] -> failwith "eof"
let num () = int_of_string (next ())
let nn () = n_of_int (num ())
let rec times k f = if k <= 0 then [] else let x = f () in x :: times (k - 1) f
let names () = let k = num () in times k nn
let rec ns () =
  match next () with
  | "NS" -> let id = nn () in let inl = names () in let fd = names () in let ex = names () in
    let inh = (match next () with "-" -> None | "+" -> Some (ns ()) | t -> failwith ("inh " ^ t)) in
    NS (id, inl, fd, ex, inh)
  | t -> failwith ("ns " ^ t)
let show_origin = function
  | OInline i -> "inline" ^ string_of_int (int_of_n i) | OFile i -> "file" ^ string_of_int (int_of_n i)
  | OContext -> "context" | OBuiltin -> "builtin" | OUndefined -> "undefined"
let kvs s = List.map (fun kv -> match String.split_on_char ':' kv with
    | [k; v] -> (n_of_int (int_of_string k), n_of_int (int_of_string v)) | _ -> failwith "kv")
    (List.filter (fun t -> t <> "") (String.split_on_char ',' (String.trim s)))

let handle line =
  match fields line with
  | ["reach"; u; c] -> field_of_str (reached (str_of_field u) (str_of_field c))
  | ["resolve"; body] ->
    toks := List.filter (fun t -> t <> "") (String.split_on_char ' ' body);
    let x = nn () in let ctx = names () in let bi = names () in
    let k = num () in
    let l = times k (fun () -> let n = ns () in let ni = num () in
                      (n, times ni (fun () -> match next () with "*" -> ImpStar | t -> ImpName (n_of_int (int_of_string t))))) in
    (match import_ns l [] with
     | None -> "attrerror"
     | Some d -> show_origin (resolve_imported d ctx bi x))
  | ["get"; body] ->
    toks := List.filter (fun t -> t <> "") (String.split_on_char ' ' body);
    let n = ns () in let key = nn () in
    (match ns_get n key with Some o -> show_origin o | None -> "attrerror")
  | ["kwargs"; ps; data; kw] ->
    let params = List.map (fun t -> n_of_int (int_of_string t)) (List.filter (fun t -> t <> "") (String.split_on_char ' ' ps)) in
    String.concat "," (List.map (fun (k, v) -> string_of_int (int_of_n k) ^ ":" ^ string_of_int (int_of_n v)) (kwargs_for_include params (kvs data) (kvs kw)))
  | _ -> "!badrequest"

let () = iter_lines handle
