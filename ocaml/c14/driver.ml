open Model
open Common

let n s = n_of_int (int_of_string s)
let parse_op s =
  match List.filter (fun t -> t <> "") (String.split_on_char ' ' (String.trim s)) with
  | ["T"; ms] -> Tick (n ms)
  | ["W"; d; nm; v; m] -> Write (n d, n nm, n v, (if m = "-" then None else Some (n m)))
  | ["D"; d; nm] -> Delete (n d, n nm)
  | ["R"; d; nm; b] -> SetReadable (n d, n nm, b = "1")
  | ["C"; d; nm; b] -> SetCompiles (n d, n nm, b = "1")
  | ["G"; u] -> Get (n u)
  | ["H"; u] -> Has (n u)
  | ["PS"; u; v] -> PutString (n u, n v)
  | ["PT"; u; f] -> PutTemplate (n u, n f)
  | _ -> failwith ("bad op " ^ s)

let show_res = function
  | ROk (t, v) -> Printf.sprintf "ok %d %d" (int_of_n t) (int_of_n v)
  | RTopLevel -> "top" | RLookupExc -> "lexc" | RCompileErr -> "cerr" | ROSError -> "oserr"
  | RBool b -> if b then "b1" else "b0"
  | RUnit -> "u"

let handle line =
  match String.split_on_char ';' line with
  | c :: ops ->
    (match List.filter (fun t -> t <> "") (String.split_on_char ' ' c) with
     | [ch; cp; nd] ->
       let cfg = { checks = (ch = "1"); cap = (if cp = "-1" then None else Some (n cp)); ndirs = n nd } in
       let ops = List.map parse_op (List.filter (fun t -> String.trim t <> "") ops) in
       let (rs, s) = run cfg init ops in
       String.concat ";" (List.map show_res rs)
       ^ Printf.sprintf "|len=%d|constr=%d|keys=%s" (List.length s.coll) (int_of_n s.constructions)
         (String.concat "," (List.sort compare (List.map (fun (u, _) -> string_of_int (int_of_n u)) s.coll)))
     | _ -> "!badcfg")
  | [] -> "!empty"

let () = iter_lines handle
