open Model
open Common

(* match|text                          -> none | name|restlen
   decide|S|text|known                 -> str|enc
   decide|B|bytes|known|ign_full|ign_stripped|utf8 names;... -> bytes|enc|paylen  or conflict|name
   render|u(0/1)|oenc or ~|errors|encoded or ~ or !|piece|piece... -> str|.. / bytes|.. / err *)
let opt_field f = if String.trim f = "~" then None else Some (str_of_field f)

let handle line =
  match fields line with
  | ["match"; t] ->
    (match coding_match (str_of_field t) with
     | None -> "none"
     | Some (name, rest) -> field_of_str name ^ "|" ^ string_of_int (List.length rest))
  | ["decide"; "S"; t; known] ->
    (match decide (fun _ -> []) (fun _ -> false) (IStr (str_of_field t)) (opt_field known) with
     | OStr (e, _) -> "str|" ^ field_of_str e
     | _ -> "!unexpected")
  | ["decide"; "B"; b; known; ifull; istripped; utf8names] ->
    let bytes = str_of_field b in
    let tf = str_of_field ifull and ts = str_of_field istripped in
    let dec_ignore x = if x = bytes then tf else ts in
    (* the codec registry's answer, as the table of the names it takes for utf-8 *)
    let table = List.map str_of_field (List.filter (fun x -> x <> "") (String.split_on_char ';' utf8names)) in
    let names_utf8 n = List.mem n table in
    (match decide dec_ignore names_utf8 (IBytes bytes) (opt_field known) with
     | OBytes (e, p) -> "bytes|" ^ field_of_str e ^ "|" ^ string_of_int (List.length p)
     | OBomConflict n -> "conflict|" ^ field_of_str n
     | OStr _ -> "!unexpected")
  | "render" :: u :: oenc :: errors :: encoded :: pieces ->
    let enc _ _ _ = if String.trim encoded = "!" then None else Some (str_of_field encoded) in
    (match render_out enc (u = "1") (opt_field oenc) (str_of_field errors) (List.map str_of_field pieces) with
     | RStr s -> "str|" ^ field_of_str s
     | RBytes b -> "bytes|" ^ field_of_str b
     | REncodeError -> "err")
  | _ -> "!badrequest"

let () = iter_lines handle
