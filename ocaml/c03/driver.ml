open Model
open Common

(* loop|tokens: O T R B X | F n k child*k | Y kb child*kb kh child*kh   -> outcome|depth|i,len,depth,parent;...
   print|field~field (N = None)                                       -> ok d d d|indent|detail  or toomany
   pass|letters (c comment, t ternary, e end, p primary, m emits, s silent) -> 1 / 0 *)
let toks = ref []
let next () = match !toks with t :: r -> toks := r; t | [] -> failwith "eof"
let rec times k f = if k <= 0 then [] else let x = f () in x :: times (k - 1) f
let rec prog () =
  match next () with
  | "O" -> PObserve | "T" -> PText | "R" -> PRaise | "B" -> PBreak | "X" -> PReturn
  | "F" -> let n = int_of_string (next ()) in let k = int_of_string (next ()) in PFor (nat_of_int n, times k prog)
  | "G" -> let k = int_of_string (next ()) in PForRaise (times k prog)
  | "Y" -> let kb = int_of_string (next ()) in let b = times kb prog in
    let kh = int_of_string (next ()) in let h = times kh prog in PTry (b, h)
  | t -> failwith ("prog " ^ t)

let show_outcome = function ONormal -> "normal" | ORaised -> "raised" | OBreak -> "break" | OReturn -> "return" | OFuel -> "fuel"

let handle line =
  match fields line with
  | ["loop"; body] ->
    toks := List.filter (fun t -> t <> "") (String.split_on_char ' ' body);
    let k = int_of_string (next ()) in
    let l = times k prog in
    let ((s, o), tr) = run_prog l in
    show_outcome o ^ "|" ^ string_of_int (List.length s) ^ "|" ^
    String.concat ";" (List.map (fun ((c, d), p) ->
        string_of_int (int_of_n c.l_index) ^ "," ^ string_of_int (int_of_n c.l_len) ^ "," ^ string_of_int (int_of_nat d) ^ "," ^
        (match p with Some i -> string_of_int (int_of_n i) | None -> "-")) tr)
  | ["print"; body] ->
    let lines = List.map (fun f -> if String.trim f = "N" then None else Some (str_of_field f)) (String.split_on_char '~' body) in
    (match print_lines lines with
     | Some (s, ws) -> "ok " ^ String.concat " " (List.map (fun w -> string_of_int (int_of_nat w)) ws) ^ "|" ^ string_of_int (int_of_nat s.indent)
                       ^ "|" ^ String.concat "" (List.map (fun b -> if b then "1" else "0") s.detail)
     | None -> "toomany")
  | ["pass"; letters] ->
    let cs = List.init (String.length letters) (fun i -> match letters.[i] with
        | 'c' -> ChComment | 't' -> ChTernary | 'e' -> ChEnd | 'p' -> ChPrimary | 'm' -> ChEmits | 's' -> ChSilent | 'h' -> ChHidden | _ -> failwith "kind") in
    if needs_pass cs then "1" else "0"
  | _ -> "!badrequest"

let () = iter_lines handle
