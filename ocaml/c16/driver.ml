open Model
open Common

let n s = n_of_int (int_of_string (String.trim s))
let words s = List.filter (fun t -> t <> "") (String.split_on_char ' ' (String.trim s))
let items s = List.filter (fun t -> String.trim t <> "") (String.split_on_char ',' s)

let show_res = function
  | COk t -> Printf.sprintf "ok %d %d" (int_of_n t.t_id) (int_of_n t.t_ver)
  | CTopLevel -> "top" | CLookupExc -> "lexc" | CCompileErr -> "cerr" | COSError -> "oserr"

let show_pc = function
  | Done r -> show_res r
  | G0 -> "@G0" | C1 _ -> "@C1" | C2 _ -> "@C2" | E1 -> "@E1" | M1 -> "@M1" | L0 -> "@L0" | L1 -> "@L1"
  | L2 -> "@L2" | L3 _ -> "@L3" | L4 _ -> "@L4" | L5 _ -> "@L5"

(* run|checks|clock|files: u ver mtime ok,...|threads: i u,...|sched: T i / W u ver ok / D u / K ms ,... *)
let handle line =
  match fields line with
  | ["run"; ch; clock; files; threads; sched] ->
    let files = List.map (fun f -> match words f with
        | [u; v; m; ok] -> (n u, { cf_ver = n v; cf_mtime = n m; cf_ok = (ok = "1") })
        | _ -> failwith "file") (items files) in
    let threads = List.map (fun t -> match words t with [i; u] -> (n i, n u) | _ -> failwith "thread") (items threads) in
    let sched = List.map (fun a -> match words a with
        | ["T"; i] -> Th (n i)
        | ["W"; u; v; ok] -> EWrite (n u, n v, ok = "1")
        | ["D"; u] -> EDelete (n u)
        | ["K"; ms] -> ETick (n ms)
        | _ -> failwith "act") (items sched) in
    let s = crun_conc (ch = "1") (conc_init (n clock) files [] threads (n_of_int 0)) sched in
    Printf.sprintf "%s|constr=%d|keys=%s|mutex=%s"
      (String.concat ";" (List.map (fun (i, t) -> Printf.sprintf "%d:%s" (int_of_n i) (show_pc t.th_pc)) s.cthreads))
      (int_of_n s.cconstr)
      (String.concat "," (List.sort compare (List.map (fun (u, _) -> string_of_int (int_of_n u)) s.ccoll)))
      (match s.cmutex with None -> "free" | Some i -> string_of_int (int_of_n i))
  | _ -> "!badrequest"

let () = iter_lines handle
