open Model
open Common

let toks = ref []
let next () = match !toks with t :: r -> toks := r; t | [] -> failwith "eof"
let num () = int_of_string (next ())
let nn () = n_of_int (num ())
let rec times k f = if k <= 0 then [] else let x = f () in x :: times (k - 1) f
let str () = let l = num () in times l nn
let callsp () = let k = num () in times k (fun () -> let a = nn () in let b = nn () in (a, b))

let rec node () =
  match next () with
  | "T" -> NText (str ())
  | "M" -> let l = nn () in NComment (l, str ())
  | "C" -> let k = (match next () with "e" -> CExpr | "c" -> CCode | "l" -> CControl | _ -> CPage) in
    let l = nn () in NCodeNode (k, l, callsp ())
  | "E" -> NControlEnd
  | "G" -> let l = nn () in let c = callsp () in let nk = num () in NTagCode (l, c, nodes nk)
  | "O" -> let nk = num () in NTagOther (nodes nk)
  | t -> failwith ("node " ^ t)
and nodes k = if k <= 0 then NNil else let n = node () in NCons (n, nodes (k - 1))

let handle line =
  match fields line with
  | ["ex"; body] ->
    toks := List.filter (fun t -> t <> "") (String.split_on_char ' ' body);
    let nt = num () in
    let tags = times nt str in
    let nk = num () in
    let l = nodes nk in
    String.concat ";" (List.map (fun ((ln, m), cs) ->
        Printf.sprintf "%d:%d:%s" (int_of_n ln) (int_of_n m) (String.concat "^" (List.map field_of_str cs))) (extract tags l))
    ^ "|" ^ string_of_int (List.length (visited l)) ^ "|" ^ string_of_int (List.length (all_codes l))
  | _ -> "!badrequest"

let () = iter_lines handle
