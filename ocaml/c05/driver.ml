open Model
open Common

(* render|ndefs (D b f k node*k)*  nbody node*
   node: T len cp* | P | R | X | C d | K d | W d k node*k | B | Y kb node*kb kh node*kh
   -> outcome|bottom buffer|nbufs|ncallers|nextcaller 0/1|probes a,b,c,d;... *)
let toks = ref []
let next () = match !toks with t :: r -> toks := r; t | [] -> failwith "eof"
let num () = int_of_string (next ())
let rec times k f = if k <= 0 then [] else let x = f () in x :: times (k - 1) f
let rec node () =
  match next () with
  | "T" -> let l = num () in NText (times l (fun () -> n_of_int (num ())))
  | "P" -> NProbe | "R" -> NRaise | "X" -> NReturn | "B" -> NCallerBody
  | "C" -> NCall (nat_of_int (num ()))
  | "K" -> NCapture (nat_of_int (num ()))
  | "W" -> let d = num () in let k = num () in NCallContent (nat_of_int d, times k node)
  | "Y" -> let kb = num () in let b = times kb node in let kh = num () in let h = times kh node in NTry (b, h)
  | t -> failwith ("node " ^ t)
let def () =
  match next () with
  | "D" -> let b = num () in let f = num () in let k = num () in
    { d_body = times k node; d_buffered = (b = 1); d_filtered = (f = 1) }
  | t -> failwith ("def " ^ t)

let show_outcome = function ONormal -> "normal" | ORaised -> "raised" | OReturn -> "return" | OFuel -> "fuel"
let rec last = function [] -> [] | [x] -> x | _ :: r -> last r

let handle line =
  match fields line with
  | ["render"; body] ->
    toks := List.filter (fun t -> t <> "") (String.split_on_char ' ' body);
    let nd = num () in let defs = times nd def in
    let nb = num () in let b = times nb node in
    let ((s, o), tr) = render defs b in
    show_outcome o ^ "|" ^ field_of_str (last s.bufs) ^ "|" ^ string_of_int (List.length s.bufs) ^ "|" ^ string_of_int (List.length s.callers)
    ^ "|" ^ (match s.nextcaller with Some _ -> "1" | None -> "0") ^ "|" ^
    String.concat ";" (List.map (fun (((a, b), c), d) ->
        string_of_int (int_of_nat a) ^ "," ^ string_of_int (int_of_nat b) ^ "," ^ (if c then "1" else "0") ^ "," ^ (if d then "1" else "0")) tr)
  | _ -> "!badrequest"

let () = iter_lines handle
