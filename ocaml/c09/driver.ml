open Model
open Common

let list_field f = if String.trim f = "" then [] else List.map str_of_field (String.split_on_char ';' f)
let show_b b = if b then "1" else "0"
let show_outcome = function
  | Found f -> "found " ^ field_of_str f
  | TopLevelLookup -> "toplevel"
  | LookupExc -> "lookupexc"

let handle line =
  match fields line with
  | ["normpath"; s] -> field_of_str (normpath (str_of_field s))
  | ["join"; a; b] -> field_of_str (join (str_of_field a) (str_of_field b))
  | ["dirname"; s] -> field_of_str (dirname (str_of_field s))
  | ["unorm"; s] -> field_of_str (u_norm (str_of_field s))
  | ["check"; s] -> show_b (template_check (str_of_field s))
  | ["adjust"; u; r] ->
    field_of_str (adjust_uri (str_of_field u) (if r = "!none" then None else Some (str_of_field r)))
  | ["modpath"; md; u] -> field_of_str (module_path (str_of_field md) (str_of_field u))
  | ["get"; uri; dirs; files] ->
    let files = list_field files in
    let tbl = Hashtbl.create 64 in
    List.iter (fun f -> Hashtbl.replace tbl f ()) files;
    let isfile p = Hashtbl.mem tbl p in
    show_outcome (get_template isfile (lookup_dirs (list_field dirs)) (str_of_field uri))
  | ["within"; d; p] -> show_b (within (str_of_field d) (str_of_field p))
  | _ -> "!badrequest"

let () = iter_lines handle
