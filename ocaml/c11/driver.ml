open Model
open Common

let f = field_of_str
let b x = if x then "1" else "0"
let show_kind = function
  | KText t -> "T:" ^ f t
  | KExpr (t, e) -> "E:" ^ f t ^ ":" ^ f e
  | KControl (k, e, t) -> "C:" ^ f k ^ ":" ^ b e ^ ":" ^ f t
  | KComment t -> "M:" ^ f t
  | KTag (k, attrs, sc) -> "G:" ^ f k ^ ":" ^ String.concat "," (List.map (fun (a, v) -> f a ^ "=" ^ f v) attrs) ^ ":" ^ b sc
  | KTagEnd k -> "Z:" ^ f k
  | KCode (t, m) -> "P:" ^ f t ^ ":" ^ b m
  | KDropNL -> "D" | KCoding -> "X"

let show_err = function
  | EUnterminated -> "unterminated" | EInvalidControl -> "invalidcontrol" | ENoStartKw -> "nostart"
  | EKwMismatch -> "kwmismatch" | EBadTernary -> "badternary" | EUnclosedTag -> "unclosedtag"
  | EUnterminatedControl -> "unterminatedcontrol" | ECloseNoOpen -> "closenoopen" | ECloseMismatch -> "closemismatch"
  | EOutOfFuel -> "outoffuel"

let handle line =
  match fields line with
  | ["lex"; s] ->
    let src = str_of_field s in
    let (es, o) = lex src in
    String.concat ";" (List.map (fun e ->
        Printf.sprintf "%s@%d,%d,%d" (show_kind e.ev_kind) (int_of_n e.ev_line) (int_of_n e.ev_pos) (List.length e.ev_src)) es)
    ^ "|" ^ (match o with LexOk -> "ok" | LexErr (e, l, p) -> Printf.sprintf "%s %d %d" (show_err e) (int_of_n l) (int_of_n p))
    ^ "|" ^ b (tiles src es) ^ b (List.for_all emit_ok es)
  | ["pycode"; l; code; e] -> string_of_int (int_of_n (python_code_line (n_of_int (int_of_string l)) (n_of_int 0) (n_of_int 0) (str_of_field code) (n_of_int (int_of_string e))))
  | ["fragment"; l; kw; e] -> string_of_int (int_of_n (fragment_line (n_of_int (int_of_string l)) (str_of_field kw) (n_of_int (int_of_string e))))
  | ["linecol"; pre] -> let p = str_of_field pre in Printf.sprintf "%d %d" (int_of_n (line_of_prefix p)) (int_of_n (col_of_prefix p))
  | _ -> "!badrequest"

let () = iter_lines handle
