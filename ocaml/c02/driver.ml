open Model
open Common

let list_field f = if String.trim f = "" || String.trim f = "!" then [] else List.map str_of_field (String.split_on_char ';' f)

let handle line =
  match fields line with
  | ["pipe"; d; p; l; isexpr] ->
    let d = list_field d and l = list_field l in
    let p = if String.trim p = "!" then None else Some (list_field p) in
    String.concat ";" (List.map field_of_str (resolved_pipeline d p l (isexpr = "1")))
    ^ "|" ^ (if filtering_applies d p l then "1" else "0")
  | ["expr"; s] ->
    (* the Expression events of the lexer on this source: text and filter string *)
    let (es, _) = lex (str_of_field s) in
    String.concat ";" (List.filter_map (fun e -> match e.ev_kind with
        | KExpr (t, esc) -> Some (field_of_str t ^ ":" ^ field_of_str esc) | _ -> None) es)
  | ["default"] -> String.concat ";" (List.map field_of_str default_default_filters)
  | _ -> "!badrequest"

let () = iter_lines handle
