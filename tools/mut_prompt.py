import json,sys
pid=sys.argv[1]; n=sys.argv[2] if len(sys.argv)>2 else "3"
props={json.loads(l)['id']:json.loads(l) for l in open('/verif/properties.jsonl')}
p=props[pid]
wt="/tmp/mut_%s"%pid.lower()
print(f"""You are helping to evaluate a verification effort by producing *seeded defects* (mutations) in a Python library.

The library is sqlalchemy/mako (a template engine). You have your own scratch git worktree of it at {wt} (already created; work ONLY inside it and inside {wt}_out/ which you should create; never touch /repo or /verif). Python to use: `cd {wt} && PYTHONPATH={wt} /venv/bin/python ...`. The existing test suite is run with: `cd {wt} && PYTHONPATH={wt} /venv/bin/python -m pytest -q -p no:cacheprovider --timeout=900 -x -q 2>&1 | tail -5` (567 tests pass and exactly 3 fail on the unmodified tree: test_custom_tback, test_py_utf8_html_error_template, test_utf8_format_exceptions_pygments; those 3 may keep failing). Remove {wt}/test/templates/modules after running tests.

Here is a semantic property the library is supposed to satisfy:

ID: {p['id']} -- {p['title']}
STATEMENT: {p['statement']}
QUANTIFIED OVER: {p['quantifier']['text']}
CODE ANCHORS: {json.dumps(p['anchors']['mechanism'])}

Task: produce {n} DIFFERENT, independent source changes to the library (each a small, realistic patch of the kind a well-meaning developer could make: a refactoring slip, an 'optimisation', an off-by-one, a changed table entry, a dropped branch, a reordered statement, two cooperating sites that each look fine alone ...) such that each one, applied alone:
  1. still imports/compiles and the existing test suite still passes exactly as before (same 567 passing);
  2. BREAKS the property above;
  3. needs something specific to manifest -- an unusual input, a particular multi-step sequence, a particular interleaving or fault point, a rarely used option -- i.e. ordinary everyday use would not expose it at once. Prefer subtle over blatant. Make the {n} changes touch different mechanisms/aspects of the property.
For each change i (1..{n}) write into {wt}_out/m<i>/ :
  - patch.diff : `git diff` of the change against the worktree HEAD (must apply with `git apply` to a clean checkout);
  - demo.py : a small standalone program (run as `PYTHONPATH=<tree> /venv/bin/python demo.py`) that exits 0 on the unmodified tree and exits non-zero (assertion failure) with the change applied, demonstrating the property violation through the library's public behaviour;
  - meta.json : {{"property": "{pid}", "summary": "...what was changed...", "needs": "...what it needs in order to manifest...", "files": [...]}}.
Verify each yourself: with the patch applied run the full test suite (must still pass as before) and demo.py (must fail); then `git checkout -- .` and confirm demo.py passes. Leave the worktree clean (no patch applied) when you finish. In your final answer list, for each change, the summary, what it needs to manifest, and confirm the verification results. Do not look at or use anything under /verif.""")
