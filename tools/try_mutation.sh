#!/bin/bash
# tools/try_mutation.sh <patch.diff> <PROP> [tier] : apply to /repo, run the check, always revert
patch="$1"; prop="$2"; tier="${3:-quick}"
git -C /repo diff --quiet || { echo "/repo not clean"; exit 2; }
git -C /repo apply "$patch" || { echo "patch does not apply"; exit 2; }
cp /verif/evidence/$prop.json /verif/.evidence_saved_$$.json 2>/dev/null
cd /verif && timeout 1800 ./check "$prop" --tier "$tier" > /tmp/try_$$.log 2>&1; rc=$?
git -C /repo checkout -- . ; rm -rf /repo/test/templates/modules
[ -f /verif/.evidence_saved_$$.json ] && mv /verif/.evidence_saved_$$.json /verif/evidence/$prop.json
grep -E "^(VIOLATION|KNOWN-FINDING|C[0-9]+ )" /tmp/try_$$.log | head -8
echo "exit=$rc"; rm -f /tmp/try_$$.log
