#!/usr/bin/env python3
"""Regenerate MANIFEST.json from tools/claims.json (per-property claim texts)."""
CORPUS_NOTE = (" Every run begins with the property's corpus of reported defects (hunt/<id>/, hunt/index.json): small programs that "
               "fail while a reported defect is present -- guards of the defects repaired in /repo, and the open findings matched by tag.")
import json, os
V = "/verif"
props = [json.loads(l) for l in open(V + "/properties.jsonl")]
claims = json.load(open(V + "/tools/claims.json"))
checks, served = [], []
for p in props:
    c = claims.get(p["id"])
    if not c or not c.get("claimed"):
        continue
    served.append(p["id"])
    checks.append({
        "property_id": p["id"],
        "quick_cmd": "./check %s --tier quick" % p["id"],
        "thorough_cmd": "./check %s --tier thorough" % p["id"],
        "evidence_file": "/verif/evidence/%s.json" % p["id"],
        "replay_cmd_template": "./check %s --replay {path}" % p["id"],
        "engine": "coq-model+extraction",
        "level_claimed": {"category": "proof", "text": c["text"] + CORPUS_NOTE, "design_ref": c.get("design_ref", "DESIGN.md section 7 " + p["id"])},
        "level_note": c["note"],
        "technique": c.get("technique", "machine-checked proof in Coq (theorems over an executable model) + model/implementation correspondence via extraction"),
    })
na = [{"property_id": p["id"], "reason": claims.get(p["id"], {}).get("na_reason", "check not built yet (planned, DESIGN.md section 10); not claimed until its model, theorems and correspondence exist")}
      for p in props if p["id"] not in served]
m = {
    "version": 1, "setup_cmd": "./setup.sh",
    "hooks": {"guard": "MAKO_VERIF",
              "enable": "no source hooks: all instrumentation is installed by the harness from outside (wrappers around stdlib entry points, audit hooks)",
              "baseline_off_cmd": "cd /repo && /venv/bin/python -m pytest -ra -q -p no:cacheprovider --timeout=900 --continue-on-collection-errors; rm -rf /repo/test/templates/modules",
              "source_commits": [], "add_only": True},
    "engines": [{"name": "coq-model+extraction", "path": "/verif/coq", "serves_properties": served,
                 "kind_free_text": "Coq 8.16.1 development (Lib, Gen regenerated from /repo on every run, Model, Proofs, Properties) + OCaml extraction + Python correspondence harness (harness/)"}],
    "checks": checks, "not_applicable": na,
    "notes": "fix: commits in /repo and known findings are listed in /verif/known_findings.json; see DESIGN.md.",
}
json.dump(m, open(V + "/MANIFEST.json", "w"), indent=1)
print("claimed:", served)
