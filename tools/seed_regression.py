#!/usr/bin/env python3
"""tools/seed_regression.py [seed-dir-name ...] : apply every seeded change to /repo in turn, run the quick check of its
property, undo it, and record in seeded/RESULTS.json whether the check reported a violation and how (concrete input /
no-failing-input-found).  /repo must be clean; it is restored after every seed."""
import glob, json, os, re, subprocess, sys, time

ROOT = "/verif"
names = sys.argv[1:] or sorted(os.path.basename(d) for d in glob.glob(ROOT + "/seeded/*") if os.path.isdir(d) and not os.path.basename(d).startswith("_"))
res_path = ROOT + "/seeded/RESULTS.json"
results = json.load(open(res_path)) if os.path.exists(res_path) else {}
for name in names:
    d = os.path.join(ROOT, "seeded", name)
    patch = os.path.join(d, "patch.diff")
    prop = name.split("-")[0]
    if subprocess.run(["git", "-C", "/repo", "diff", "--quiet"]).returncode != 0:
        print("/repo not clean"); sys.exit(2)
    a = subprocess.run(["git", "-C", "/repo", "apply", patch], capture_output=True, text=True)
    fuzz = False
    if a.returncode != 0:
        # the lines around the change have moved since the patch was cut (later fix: commits): same hunks, looser context
        f = subprocess.run("patch -p1 -F3 --no-backup-if-mismatch -d /repo < '%s'" % patch, shell=True, capture_output=True, text=True)
        subprocess.run("find /repo -name '*.rej' -delete; find /repo -name '*.orig' -delete", shell=True)
        if f.returncode != 0:
            subprocess.run(["git", "-C", "/repo", "checkout", "--", "."])
            results[name] = {"property": prop, "applies": False, "note": a.stderr.strip()[:200]}
            print(name, "does not apply"); continue
        fuzz = True
    t0 = time.time()
    ev = os.path.join(ROOT, "evidence", prop + ".json")
    ev_saved = open(ev).read() if os.path.exists(ev) else None     # evidence describes the unchanged tree: put it back afterwards
    try:
        p = subprocess.run([ROOT + "/check", prop], capture_output=True, text=True, timeout=1800)
        out, rc = p.stdout + p.stderr, p.returncode
    except subprocess.TimeoutExpired:
        out, rc = "", 124
    finally:
        subprocess.run(["git", "-C", "/repo", "checkout", "--", "."])
        subprocess.run(["rm", "-rf", "/repo/test/templates/modules"])
        if ev_saved is not None:
            open(ev, "w").write(ev_saved)
    viol = re.findall(r"^VIOLATION property=\S+ replay=\S+(.*)$", out, re.M)
    concrete = sum(1 for v in viol if "no-failing-input-found" not in v)
    results[name] = {"property": prop, "applies": True, "exit": rc, "violation_lines": len(viol), "with_concrete_input": concrete,
                     "only_no_failing_input_found": bool(viol) and concrete == 0, "seconds": round(time.time() - t0, 1)}
    if fuzz:
        results[name]["applied_with_fuzz"] = True
    print(name, results[name])
    json.dump(results, open(res_path, "w"), indent=1, sort_keys=True)
