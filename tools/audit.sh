#!/bin/bash
# tools/audit.sh [--coqchk] : the checks a stranger would run on the Coq development
cd /verif/coq || exit 2
echo "== forbidden constructs (expect none outside comments)"
grep -rn 'Admitted\|admit\b\|^ *Axiom \|^ *Parameter \|^ *Conjecture \|Unset Guard\|bypass_check\|Admit Obligations\|type-in-type\|impredicative-set' --include=*.v . | grep -v '^./Gen/' || echo "none"
echo "== sections with Variable / Hypothesis (each must lie between Section and End)"
grep -n '^ *Variables\? \|^ *Hypothes[ie]s \|^Section \|^End ' -r --include=*.v . | grep -v '^./Gen/'
echo "== Print Assumptions under every property theorem"
tot=0
for f in Properties/C*.v; do
  out=$(coqc -Q . MakoV "$f" 2>&1)
  n=$(echo "$out" | grep -c "Closed under the global context"); a=$(echo "$out" | grep -c "Axioms:")
  t=$(grep -c '^Theorem ' "$f"); tot=$((tot + t))
  echo "$f theorems=$t closed=$n axioms=$a"
done
echo "total theorems: $tot"
if [ "$1" = "--coqchk" ]; then
  echo "== coqchk -o (independent re-check of every compiled file and its dependencies)"
  timeout 3600 coqchk -silent -o -Q . MakoV $(ls Properties/*.vo | sed 's/\.vo$//; s/\//./g; s/^/MakoV./') 2>&1 | tail -40
fi
