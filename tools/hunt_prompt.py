import json,sys
pid=sys.argv[1]
props={json.loads(l)['id']:json.loads(l) for l in open('/verif/properties.jsonl')}
p=props[pid]
wt="/tmp/hunt_%s"%pid.lower()
print(f"""You are helping to evaluate a Python library against a stated semantic property, by looking for inputs on which the library, AS IT IS, violates the property.

The library is sqlalchemy/mako (a template engine). You have your own scratch git worktree of it at {wt} (already created; work ONLY inside it and inside {wt}_out/ which you should create; never touch /repo or /verif; do NOT modify the library's source). Python to use: `cd {wt} && PYTHONPATH={wt} /venv/bin/python ...`.

Here is the property:

ID: {p['id']} -- {p['title']}
STATEMENT: {p['statement']}
QUANTIFIED OVER: {p['quantifier']['text']}
CODE ANCHORS: {json.dumps(p['anchors']['mechanism'])}

Task: read the anchored code and probe the library systematically (write small generators / enumerations, not just a handful of hand-made examples) for inputs, option combinations, operation sequences or interleavings within the quantified domain (or clearly within the spirit of the statement) on which the UNMODIFIED library contradicts the statement. Go for breadth first (every clause of the statement, every kind of construct and option named in it), then depth on whatever looks fragile (regular expressions applied to multi-line text, re-emitted code, caches keyed by derived names, state restored in finally blocks, first-use initialisation, off-by-one in positions, encodings, rarely used options).

For each DISTINCT violation you can demonstrate, write {wt}_out/f<i>.py : a small standalone program (run as `PYTHONPATH={wt} /venv/bin/python f<i>.py`) that prints what it observed and what the property requires, and exits non-zero because of the violation (assert). Minimise each reproducer. Do not report the same root cause twice. Do not report things that are merely unsupported syntax documented as such, and do not report the 3 tests of the suite that fail on the unmodified tree.

In your final answer list each finding: one-line title, the clause of the statement it contradicts, the minimal input, what happens vs what is required, and your best guess of the root cause (file:function). Also say which clauses / constructs you probed without finding anything, and roughly how many inputs you tried for each.""")
