#!/bin/bash
# tools/confirm_seed.sh <scratch-worktree> <dir with patch.diff demo.py> : confirm in the scratch worktree (never /repo) that the
# change applies, the unedited suite still gives 567 passed / 3 failed, the demonstration fails with it and passes without it.
wt="$1"; d="$2"
cd "$wt" || exit 2
git checkout -q -- . ; git apply "$d/patch.diff" || { echo "APPLY-FAILED"; exit 2; }
res=$(PYTHONPATH="$wt" /venv/bin/python -m pytest -q -p no:cacheprovider --timeout=900 -q 2>&1 | tail -1)
PYTHONPATH="$wt" /venv/bin/python "$d/demo.py" >/dev/null 2>&1; with=$?
git checkout -q -- . ; rm -rf "$wt/test/templates/modules"
PYTHONPATH="$wt" /venv/bin/python "$d/demo.py" >/dev/null 2>&1; without=$?
echo "suite: $res | demo with patch: exit $with | demo without: exit $without"
