import json, sys, collections
sys.path[:0] = ['/verif', '/repo']
from harness import common
import importlib
prop=sys.argv[1]; pref=sys.argv[2] if len(sys.argv)>2 else ""
mod = importlib.import_module("harness."+prop.lower())
ctx = common.Ctx(prop, "quick", 20260925)
import io, contextlib
buf = io.StringIO()
with contextlib.redirect_stdout(buf):
    mod.run(ctx)
c=collections.Counter(t for v in ctx.violations for t in v["tags"])
print(c)
seen=collections.Counter()
for v in ctx.violations:
    t=v["tags"][0]
    if not t.startswith(pref) or seen[t]>0: continue
    seen[t]+=1
    case=dict(v["case"]); 
    print(t, v["detail"][:100]); print(json.dumps(case, ensure_ascii=False)[:int(sys.argv[3]) if len(sys.argv)>3 else 1500]); print()
print(repr(ctx.broken)[:2500])
