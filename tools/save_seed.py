#!/usr/bin/env python3
"""tools/save_seed.py <name> <dir with patch.diff demo.py meta.json> <ran text> : keep a confirmed seeded change under seeded/<name>/"""
import json, os, shutil, sys
name, src, ran = sys.argv[1], sys.argv[2], sys.argv[3]
dst = "/verif/seeded/" + name
os.makedirs(dst, exist_ok=True)
for f in ("patch.diff", "demo.py"):
    shutil.copy(os.path.join(src, f), os.path.join(dst, f))
m = json.load(open(os.path.join(src, "meta.json")))
m["ran"] = ran
m["detected"] = True
m["confirmed"] = "tools/confirm_seed.sh in a scratch worktree: unedited suite 567 passed / 3 failed, demo.py fails with the change and passes without it"
json.dump(m, open(os.path.join(dst, "meta.json"), "w"), indent=1)
print("saved", dst)
