#!/usr/bin/env python3
"""run every reproducer under /verif/hunt against a mako tree (default /repo) and list which still fail.
usage: tools/hunt_status.py [tree] [cXX ...]   -- a reproducer exits non-zero while the behaviour it describes is present"""
import os, subprocess, sys, glob, json
from concurrent.futures import ThreadPoolExecutor
tree = sys.argv[1] if len(sys.argv) > 1 and os.path.isdir(sys.argv[1]) else "/repo"
only = [a for a in sys.argv[1:] if not os.path.isdir(a)]
root = os.path.join(os.path.dirname(os.path.abspath(__file__)), "..", "hunt")
files = sorted(glob.glob(os.path.join(root, "c*", "f*.py")), key=lambda p: (p.split("/")[-2], int("".join(ch for ch in os.path.basename(p) if ch.isdigit()) or 0)))
if only: files = [f for f in files if f.split("/")[-2] in only]
def run(f):
    env = dict(os.environ, PYTHONPATH=tree + ":" + os.path.dirname(f), PYTHONHASHSEED="0", PYTHONDONTWRITEBYTECODE="1")
    try:
        p = subprocess.run(["/venv/bin/python", f], cwd=tree, env=env, capture_output=True, text=True, timeout=120)
        return f, p.returncode, (p.stdout + p.stderr).strip().splitlines()[-1:] 
    except subprocess.TimeoutExpired:
        return f, -1, ["timeout"]
with ThreadPoolExecutor(8) as ex: res = list(ex.map(run, files))
for f, rc, last in res:
    doc = ""
    try:
        src = open(f).read(); 
        if src.lstrip().startswith(('"""', "'''")): doc = src.lstrip()[3:].split(src.lstrip()[:3])[0].strip().splitlines()[0]
    except Exception: pass
    print("%-4s %s/%s  %s" % ("FAIL" if rc else "ok", f.split("/")[-2], os.path.basename(f), doc[:110]))
print("%d reproducers, %d still failing on %s" % (len(res), sum(1 for r in res if r[1]), tree))
