#!/usr/bin/env python3
"""tools/update_design.py : refresh the generated parts of DESIGN.md section 11 (theorem counts per property, the seed table)
from coq/Properties/*.v, seeded/*/meta.json and seeded/RESULTS.json"""
import glob, json, os, re
ROOT = "/verif"
p = ROOT + "/DESIGN.md"
s = open(p).read()
counts = {}
for f in sorted(glob.glob(ROOT + "/coq/Properties/C*.v")):
    t = open(f).read()
    counts[os.path.basename(f)[:-2]] = (len(re.findall(r"^Theorem ", t, re.M)), len(re.findall(r"^Example ", t, re.M)))
total = sum(a for a, _ in counts.values())
s = re.sub(r"each of the \d+ property", "each of the %d property" % total, s)
for pid, (a, b) in counts.items():
    s = re.sub(r"(\| %s \| [^|]*\| )\d+ \(\+\d+\)( \|)" % pid, r"\g<1>%d (+%d)\2" % (a, b), s)
res = json.load(open(ROOT + "/seeded/RESULTS.json")) if os.path.exists(ROOT + "/seeded/RESULTS.json") else {}
rows = []
for d in sorted(glob.glob(ROOT + "/seeded/*")):
    if not os.path.isdir(d) or os.path.basename(d).startswith("_"):
        continue
    name = os.path.basename(d)
    m = json.load(open(d + "/meta.json")) if os.path.exists(d + "/meta.json") else {}
    summ = (m.get("summary") or "").replace("\n", " ").replace("|", "/")
    summ = summ[:140] + ("…" if len(summ) > 140 else "")
    r = res.get(name, {})
    how = ("concrete input" if r.get("with_concrete_input") else ("correspondence / proof only" if r.get("violation_lines") else "NOT DETECTED")) if r else "not run"
    ran = m.get("ran") or ""
    first = "missed at first, strengthened" if ran.startswith(("missed", "found by")) else (
        "correspondence only at first, oracle added" if "at first only the correspondence" in ran else "caught")
    origin = "agent" if re.search(r"-(r\d+)?m\d+$", name) else ("revert of a fix" if "revert" in name else "hand-written")
    rows.append("| %s | %s | %s | %s | %s |" % (name, origin, summ, first, how))
table = "| seed | origin | change | first run | quick check of its property now reports |\n|---|---|---|---|---|\n" + "\n".join(rows)
det = sum(1 for r in res.values() if r.get("exit") == 1)
table += "\n\n%d seeded changes, %d flagged by the quick check of their property in the last regression run; none of the checks alarms on the unchanged tree." % (len(rows), det)
if "<!-- SEEDS:BEGIN -->" in s:
    s = re.sub(r"<!-- SEEDS:BEGIN -->.*?<!-- SEEDS:END -->", lambda m_: "<!-- SEEDS:BEGIN -->\n" + table + "\n<!-- SEEDS:END -->", s, flags=re.S)
else:
    i = s.index("| seed | origin | change |")
    j = s.index("Strengthenings made because a seed was missed")
    s = s[:i] + "<!-- SEEDS:BEGIN -->\n" + table + "\n<!-- SEEDS:END -->\n\n" + s[j:]
open(p, "w").write(s)
print("theorems:", total, "seeds:", len(rows), "flagged:", det)
