#!/usr/bin/env python3
"""Replace double quotes inside Coq comments (they open a string token in a comment)."""
import sys
for p in sys.argv[1:]:
    s = open(p).read()
    out, depth, i, in_str = [], 0, 0, False
    while i < len(s):
        if depth == 0 and s[i] == '"':
            in_str = not in_str
            out.append(s[i]); i += 1
        elif not in_str and s.startswith("(*", i):
            depth += 1; out.append("(*"); i += 2
        elif not in_str and depth and s.startswith("*)", i):
            depth -= 1; out.append("*)"); i += 2
        else:
            out.append("''" if (depth and s[i] == '"') else s[i]); i += 1
    open(p, "w").write("".join(out))
