#!/venv/bin/python
"""tools/dbg_violations.py <PROP> <tag-prefix> [n]: run a check in-process and print the first n violations with that tag"""
import json, sys
sys.path[:0] = ['/verif', '/repo']
import importlib
from harness import common
prop, pref = sys.argv[1], sys.argv[2]
n = int(sys.argv[3]) if len(sys.argv) > 3 else 2
mod = importlib.import_module("harness." + prop.lower())
ctx = common.Ctx(prop, "quick", 20260925)
import io, contextlib
buf = io.StringIO()
with contextlib.redirect_stdout(buf):
    mod.run(ctx)
k = 0
for v in ctx.violations:
    if any(t.startswith(pref) for t in v["tags"]):
        print(v["detail"][:100], v["tags"]); print(json.dumps(v["case"], ensure_ascii=False)[:1500]); print()
        k += 1
        if k >= n: break
