#!/bin/bash
# Build the whole framework offline from files on disk: regenerate Gen/*.v from /repo,
# full .vo build of every Coq file (never -vos), extraction, OCaml drivers.
set -e
cd "$(dirname "$(readlink -f "$0")")"
export PYTHONPATH=/repo:/verif PYTHONHASHSEED=0 PYTHONDONTWRITEBYTECODE=1
/venv/bin/python - <<'PY'
import sys, os, glob
from harness import common, translate
with common.BuildLock():
    translate.run_all()
    common.refresh_coqproject()
    rc, out = common.sh(["timeout", "3000", "make", "-j%d" % common.NPROC], cwd=common.COQ, timeout=3100)
    if rc != 0:
        sys.stdout.write(out[-6000:])
        sys.exit("coq build failed")
    for f in sorted(glob.glob(os.path.join(common.COQ, "Extract", "C*.v"))):
        prop = os.path.basename(f)[:-2]
        ok, log, failing = common.build_driver(prop)
        if not ok:
            sys.stdout.write(log[-4000:])
            sys.exit("driver build failed for %s" % prop)
print("setup ok")
PY
